#!/bin/sh
# tools/seedall.sh: regression over /verif/seeded: every seeded change must make the check of its property exit 1 (VIOLATION);
# every refactor must leave all checks at exit 0.  Applies each patch to /repo and reverts it straight afterwards.
cd /verif
fail=0
for d in seeded/C*; do
  pid=$(python3 -c "import json;print(json.load(open('$d/meta.json'))['property'])")
  git -C /repo apply /verif/$d/patch.diff 2>/dev/null || { echo "$d: PATCH DOES NOT APPLY"; fail=1; continue; }
  ./check $pid > .work/seedall_out.txt 2>&1; rc=$?
  git -C /repo checkout -- .
  n=$(grep -c "^VIOLATION" .work/seedall_out.txt)
  echo "$d: check $pid exit $rc, $n VIOLATION lines"
  [ $rc -eq 1 ] || fail=1
done
if [ "$1" = "--refactors" ]; then
  for f in seeded/refactors/refactor_*.diff; do
    git -C /repo apply /verif/$f 2>/dev/null || { echo "$f: PATCH DOES NOT APPLY"; fail=1; continue; }
    for p in C01 C02 C03 C04 C06 C07 C08 C09 C10 C11 C14 C15 C16 C17 C18; do
      ./check $p > .work/seedall_out.txt 2>&1; rc=$?
      # refactor_12 (work-list form of Range::difference) is the documented limit: its 2x2 groups run out of memory -> exit 2 on C06/C08/C15, never a VIOLATION
      if [ $rc -eq 2 ] && [ "$f" = "seeded/refactors/refactor_12.diff" ] && ! grep -q "^VIOLATION" .work/seedall_out.txt; then echo "$f: check $p exit 2 (documented limit)"; continue; fi
      [ $rc -eq 0 ] || { echo "$f: check $p exit $rc"; fail=1; }
    done
    git -C /repo checkout -- .
    echo "$f: done"
  done
fi
echo "SEEDALL fail=$fail"
