#!/bin/sh
# tools/mut.sh <check-id> <file-in-repo> <python-replace-old> <python-replace-new>   (development aid: apply a one-line mutant, run a check, revert)
id="$1"; f="$2"; old="$3"; new="$4"
cd /repo || exit 9
python3 - "$f" "$old" "$new" <<'PY'
import sys
p,old,new=sys.argv[1:4]
s=open(p).read()
assert s.count(old)>=1, 'pattern not found'
s=s.replace(old,new,1)
open(p,'w').write(s)
PY
[ $? -eq 0 ] || exit 9
cd /verif && ./check "$id" ${VERIF_TIER:+--tier $VERIF_TIER} 2>&1 | tail -${TAIL:-6}
git -C /repo checkout -- .
