#!/usr/bin/env python3
"""Mutation sweep (development aid, not a registered check): single-token mutants of the non-test code of /repo/src.
For each sampled mutant: apply, require that the crate's own suite still passes (otherwise the suite already kills it),
run all quick checks, record which exit 1 / 2, revert.  Results go to /verif/.work/mutsweep.jsonl.

usage: tools/mutsweep.py [--n 60] [--seed 1] [--list]
"""
import argparse, json, os, random, re, subprocess, sys, time

REPO = '/repo'
CHECKS = ['C01', 'C02', 'C03', 'C04', 'C06', 'C07', 'C08', 'C09', 'C10', 'C11', 'C14', 'C15', 'C16', 'C17', 'C18']
OPS = [
    (r' <= ', ' < '), (r' < ', ' <= '), (r' >= ', ' > '), (r' > ', ' >= '), (r' == ', ' != '), (r' != ', ' == '),
    (r' && ', ' || '), (r' \|\| ', ' && '),
    (r'Ordering::Less', 'Ordering::Greater'), (r'Ordering::Greater', 'Ordering::Less'), (r'Ordering::Equal', 'Ordering::Less'),
    (r'\bIncluding\(', 'Excluding('), (r'\bExcluding\(', 'Including('),
    (r' \+ 1\b', ' + 0'), (r' \+ 1\b', ' + 2'), (r'\b0, 0\)', '0, 1)'), (r'unwrap_or\(0\)', 'unwrap_or(1)'),
    (r'std::cmp::max', 'std::cmp::min'), (r'std::cmp::min', 'std::cmp::max'),
    (r'\bself\.lower\b', 'self.upper'), (r'\bself\.upper\b', 'self.lower'), (r'\bother\.lower\b', 'other.upper'), (r'\bother\.upper\b', 'other.lower'),
    (r'\bmajor\b', 'minor'), (r'\bminor\b', 'patch'), (r'\bpatch\b', 'minor'),
    (r'return true;', 'return false;'), (r'return false;', 'return true;'), (r'\.is_some\(\)', '.is_none()'), (r'\.is_empty\(\)', '.is_empty() == false'),
    (r'\.flip\(\)', ''), (r'Bound::Lower\(', 'Bound::Upper('), (r'Bound::Upper\(', 'Bound::Lower('), (r'\bLower\(', 'Upper('), (r'\bUpper\(', 'Lower('),
    (r'Some\(major\)', 'Some(0)'), (r'\.min\(\)', '.max()'), (r'\.max\(\)', '.min()'),
]


def code_region(path, text):
    lines = text.split('\n')
    end = len(lines)
    for i, l in enumerate(lines):
        if l.startswith('#[cfg(test)]') or l.startswith('macro_rules! create_tests_for'):
            end = i
            break
    return end


def mutants():
    out = []
    for f in ('src/range.rs', 'src/lib.rs'):
        text = open(os.path.join(REPO, f)).read()
        lines = text.split('\n')
        end = code_region(f, text)
        for i in range(end):
            l = lines[i]
            if l.strip().startswith('//') or l.strip().startswith('#[') or l.strip().startswith('use ') or 'debug_assert' in l:
                continue
            for rx, rep in OPS:
                for m in re.finditer(rx, l):
                    nl = l[:m.start()] + rep + l[m.end():]
                    if nl != l:
                        out.append({'file': f, 'line': i + 1, 'old': l, 'new': nl, 'op': '%s -> %s' % (rx, rep)})
    return out


def run(cmd, cwd=None, timeout=3600):
    return subprocess.run(cmd, cwd=cwd, shell=True, stdout=subprocess.PIPE, stderr=subprocess.STDOUT, timeout=timeout)


def main():
    ap = argparse.ArgumentParser()
    ap.add_argument('--n', type=int, default=60)
    ap.add_argument('--seed', type=int, default=1)
    ap.add_argument('--list', action='store_true')
    a = ap.parse_args()
    ms = mutants()
    random.Random(a.seed).shuffle(ms)
    print('%d candidate mutants' % len(ms))
    if a.list:
        for m in ms[:a.n]:
            print(m['file'], m['line'], m['op'], '|', m['new'].strip()[:90])
        return
    out = open('/verif/.work/mutsweep.jsonl', 'a')
    done = 0
    for m in ms:
        if done >= a.n:
            break
        assert run('git status --short', REPO).stdout.strip() == b'', '/repo not clean'
        p = os.path.join(REPO, m['file'])
        lines = open(p).read().split('\n')
        lines[m['line'] - 1] = m['new']
        open(p, 'w').write('\n'.join(lines))
        try:
            t = run('CARGO_NET_OFFLINE=true cargo test --offline 2>&1 | grep -E "^test result|^error" | head -5', REPO).stdout.decode()
            if 'error' in t or 'FAILED' in t or t.count('test result: ok') < 2:
                m['suite'] = 'killed' if 'FAILED' in t else 'does-not-compile'
            else:
                m['suite'] = 'survives'
                res = {}
                t0 = time.time()
                for c in CHECKS:
                    r = run('./check %s' % c, '/verif')
                    res[c] = r.returncode
                m['checks'] = res
                m['detected_by'] = [c for c, rc in res.items() if rc == 1]
                m['inconclusive'] = [c for c, rc in res.items() if rc == 2]
                m['wall_s'] = round(time.time() - t0)
                done += 1
        finally:
            run('git checkout -- .', REPO)
        out.write(json.dumps(m) + '\n')
        out.flush()
        print(m['file'], m['line'], m['op'], m['suite'], m.get('detected_by'), m.get('inconclusive'), flush=True)


if __name__ == '__main__':
    main()
