#!/bin/sh
# tools/seedcheck.sh <dir with patch.diff + demo.rs> <prop-id> [check ids...]: verify a seeded change and run checks against it
d="$1"; pid="$2"; shift 2
low=$(echo $pid | tr A-Z a-z)
W=/tmp/seedverify-$pid
rm -rf $W; git -C /repo worktree add -q $W HEAD || exit 9
mkdir -p $W/tests; cp $d/demo.rs $W/tests/demo_$low.rs
cd $W
echo "== demo without the change (must pass)"
CARGO_NET_OFFLINE=true cargo test --offline --test demo_$low 2>&1 | grep -E "^test result|^error" | head -3
git apply $d/patch.diff || { echo "PATCH DOES NOT APPLY"; git -C /repo worktree remove --force $W; exit 9; }
echo "== demo with the change (must fail)"
CARGO_NET_OFFLINE=true cargo test --offline --test demo_$low 2>&1 | grep -E "^test result|^error" | head -3
echo "== existing suite with the change (must pass)"
rm tests/demo_$low.rs
CARGO_NET_OFFLINE=true cargo test --offline 2>&1 | grep -E "^test result|^error" | head -3
cd /verif
git -C /repo worktree remove --force $W
echo "== checks against the change"
git -C /repo apply $d/patch.diff || exit 9
for c in "$@"; do ./check $c 2>&1 | grep -E "^(VIOLATION|INCONCLUSIVE|KNOWN|C[0-9][0-9] )" | cut -c1-300 | head -6; done
git -C /repo checkout -- .
git -C /repo status --short | head -3
