#!/usr/bin/env python3
"""regenerates MANIFEST.json from the table below (development aid; MANIFEST.json is the committed artefact)"""
import json, os
HERE = os.path.dirname(os.path.dirname(os.path.abspath(__file__)))
TECH = 'bounded symbolic execution of the crate\'s MIR into QF_BV, decided by z3 (counterexamples replayed natively through the public API)'
CLAIMED = {
 'C01': ('the crate\'s desugaring closures (primitive x5, bare partial, tilde, caret, hyphen) and partial_version against node-semver 7.5.4 (replaceCaret/Tilde/XRange, hyphenReplace, replaceGTE0, testSet) for every component value and x-shape: satisfies-level, bounds-level and prerelease opt-in equivalence, pairs of comparators through the real AND-fold; partial claim: text tokenisation is replaced by contract stubs and only spot-checked natively on generated range texts; two open known findings (known_findings.json)', '6, 12.3'),
 'C02': ('the AND-fold of one alternative, the `||` flattening and range_set on arbitrary constructor-valid comparators (some dropped): intersection never a union, union of alternatives, NoValidRanges iff empty; partial claim: tokenisation outside the solver claim (spot-checked natively on generated texts)', '6'),
 'C06': ('panic / overflow / unwrap / unreachable! conditions of every encoded function are unsatisfiable under the representation invariant (set operations incl. self-application, satisfies, min_version, max/min_satisfying, cmp/diff, From, desugaring, error construction, Range::any); partial claim: winnow grammar, Display, location() only spot-checked natively', '6'),
 'C15': ('depth-2 (thorough: depth-3) identities over free leaves A, B, C plus the inductive step (pointwise exactness of intersect and difference + closure of the representation invariant)', '6'),
 'C17': ('error construction of Version::parse / Range::parse under the winnow stream contract: input() is the original, offset in range and equal to the failing position, kind propagation, MaxLengthError guard; number::{closure#0} bound and error kinds; native corpus for location() and rendering; partial claim', '6'),
 'C03': ('BoundSet::new against an independent emptiness rule, BoundSet::satisfies / Range::satisfies / Version::satisfies against O-sat for every constructor-valid interval x every version x every build metadata (identifier lists bounded; 1..K alternatives)', '6'),
 'C04': ('Version::cmp/eq/partial_cmp/hash and the derived Identifier impls against SemVer 2.0.0 section 11 on all pairs/triples (identifier lists bounded)', '6'),
 'C07': ('Range::intersect on all pairs of constructor-valid ranges with <= K alternatives x all versions: pointwise intersection, None = empty, commutative, idempotent, prerelease clauses, no panic', '6'),
 'C08': ('Range::difference likewise: pointwise difference for every alternative of B, partition with intersect, A\\A empty, no panic', '6'),
 'C09': ('Range::allows_any == intersect().is_some() == symmetric; false => no common version; common satisfying version => true', '6'),
 'C10': ('Range::allows_all(A,B) for single-alternative B implies inclusion and allows_any; reflexive; <=> B.difference(A) is None for single A', '6'),
 'C11': ('Range::min_version: Some(m) => m satisfies and nothing lower does; None => nothing satisfies (free probe version)', '6'),
 'C14': ('max_satisfying / min_satisfying over slices of <= N symbolic versions: element of the slice, satisfies, extreme, None iff none, order independence', '6'),
 'C16': ('Version::diff on all pairs against a transcription of node-semver 7.5.4 diff.js; symmetric; None iff equal; build-insensitive', '6'),
 'C18': ('the twenty macro-generated From<(T,T,T[,T])> impls, every value of all ten integer types, against the denoted fields', '6'),
}
NA = {
 'C05': 'the accepted language of Version::parse is decided inside winnow\'s generic combinators (only named, not defined, in the crate\'s MIR); Kani cannot execute even Version::parse("1.2.3") within 25 min / 16 GB (DESIGN.md 2.1, 2.3)',
 'C12': 'needs Display (core::fmt) and the winnow parser, neither of which can be encoded within reach (DESIGN.md 2.1, 2.3)',
 'C13': 'same as C12 for Range: printing goes through core::fmt, re-parsing through winnow',
}
PENDING = {}


def main():
    checks = []
    for pid in sorted(CLAIMED):
        text, ref = CLAIMED[pid]
        checks.append({
            'property_id': pid, 'quick_cmd': './check %s' % pid, 'thorough_cmd': './check %s --tier thorough' % pid,
            'evidence_file': 'evidence/%s.json' % pid, 'replay_cmd_template': './check %s --replay {path}' % pid, 'engine': 'msmt',
            'level_claimed': {'category': 'model_checking', 'text': 'Bounded symbolic model checking of the real code: ' + text + '. The solver decides every value inside the stated bounds; nothing is claimed outside them.', 'design_ref': 'DESIGN.md section ' + ref},
            'level_note': 'Trusted: rustc\'s MIR printer (pinned nightly), the MIR->QF_BV executor (validated differentially against the native build), the std models (transcribed from the pinned rust-src), the oracles, z3. Bounds and items outside the claim are listed in the evidence file.',
            'technique': TECH})
    na = [{'property_id': k, 'reason': v} for k, v in sorted({**NA, **PENDING}.items()) if k not in CLAIMED]
    m = {'version': 1, 'setup_cmd': './setup.sh',
         'hooks': {'guard': 'none', 'enable': 'no source hooks: private functions are read from the MIR dump of a copy of /repo; replay goes through the public API', 'baseline_off_cmd': 'cd /repo && cargo test --workspace --no-fail-fast --offline', 'source_commits': [], 'add_only': True},
         'engines': [{'name': 'msmt', 'path': 'msmt/', 'serves_properties': sorted(CLAIMED), 'kind_free_text': 'MIR -> QF_BV symbolic executor (python3-vt + z3) with native replay (replay/) through the public API'}],
         'checks': checks, 'not_applicable': na,
         'notes': 'Exit codes: 0 all obligations discharged; 1 natively reproduced violation (VIOLATION line); 2 inconclusive (unsupported MIR after a refactor, solver timeout, encoder mismatch) - never reported as a violation.'}
    json.dump(m, open(os.path.join(HERE, 'MANIFEST.json'), 'w'), indent=1)


if __name__ == '__main__':
    main()
