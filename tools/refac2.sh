#!/bin/sh
# tools/refac2.sh <first> <last>: run all quick checks against refactors first..last (patches /repo temporarily)
cd /verif
fail=0
for i in $(seq $1 $2); do
  f=seeded/refactors/refactor_$i.diff
  git -C /repo apply /verif/$f 2>/dev/null || { echo "$f: PATCH DOES NOT APPLY"; fail=1; continue; }
  for p in C01 C02 C03 C04 C06 C07 C08 C09 C10 C11 C14 C15 C16 C17 C18; do
    ./check $p > .work/refac_out.txt 2>&1; rc=$?
    [ $rc -eq 0 ] || { echo "$f: check $p exit $rc: $(grep -E '^(VIOLATION|INCONCLUSIVE)' .work/refac_out.txt | head -2)"; fail=1; }
  done
  git -C /repo checkout -- .
  echo "$f: done"
done
echo "REFAC fail=$fail"
