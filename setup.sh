#!/bin/sh
# Pre-builds the offline caches the checks reuse (MIR dump dependencies, replay binary). Idempotent.
set -e
cd "$(dirname "$0")"
export CARGO_NET_OFFLINE=true
mkdir -p .work evidence
python3-vt -m msmt.setup
