// Appended to a scratch copy of src/lib.rs by msmt/kani.py (never to /repo itself).
#[cfg(kani)]
mod verif_kani_lib {
    use super::*;
    use std::mem::forget;
    fn ver() -> Version {
        let mut pre_release = vec![Identifier::Numeric(kani::any())];
        let has_pre: bool = kani::any();
        unsafe { pre_release.set_len(has_pre as usize) };
        Version { major: kani::any(), minor: kani::any(), patch: kani::any(), pre_release, build: Vec::new() }
    }
    /// K2: diff is symmetric and None exactly at Equal
    #[kani::proof]
    #[kani::unwind(3)]
    fn k2_diff_sym() {
        let a = ver(); let b = ver();
        let d1 = a.diff(&b); let d2 = b.diff(&a);
        assert!(d1 == d2);
        assert!(d1.is_none() == (a.cmp(&b) == Ordering::Equal));
        forget(a); forget(b);
    }
    /// K4: Version::cmp laws on three versions
    #[kani::proof]
    #[kani::unwind(3)]
    fn k4_cmp_laws() {
        let a = ver(); let b = ver(); let c = ver();
        assert!(a.cmp(&b) == b.cmp(&a).reverse());
        assert!((a.cmp(&b) == Ordering::Equal) == (a == b));
        if a <= b && b <= c { assert!(a <= c); }
        forget(a); forget(b); forget(c);
    }
    /// K3: tuple conversions
    #[kani::proof]
    #[kani::unwind(3)]
    fn k3_from_tuples() {
        let (a, b, c, d): (i8, i8, i8, i8) = (kani::any(), kani::any(), kani::any(), kani::any());
        kani::assume(a >= 0 && b >= 0 && c >= 0 && d >= 0);
        let v = Version::from((a, b, c, d));
        assert!(v.major == a as u64 && v.minor == b as u64 && v.patch == c as u64);
        assert!(v.pre_release.len() == 1 && v.build.is_empty());
        match &v.pre_release[0] { Identifier::Numeric(n) => assert!(*n == d as u64), _ => assert!(false) }
        let (x, y, z): (u64, u64, u64) = (kani::any(), kani::any(), kani::any());
        let w = Version::from((x, y, z));
        assert!(w.major == x && w.minor == y && w.patch == z && w.pre_release.is_empty() && w.build.is_empty());
        forget(v); forget(w);
    }
}
