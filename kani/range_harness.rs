// Appended to a scratch copy of src/range.rs by msmt/kani.py (never to /repo itself).
#[cfg(kani)]
mod verif_kani_range {
    use super::*;
    use std::mem::forget;

    // symbolic version: pre_release is [] or [Numeric(n)]; the allocation is concrete, the length symbolic
    fn any_version() -> Version {
        let major: u64 = kani::any();
        let minor: u64 = kani::any();
        let patch: u64 = kani::any();
        kani::assume(major <= MAX_SAFE_INTEGER && minor <= MAX_SAFE_INTEGER && patch <= MAX_SAFE_INTEGER);
        let mut pre_release = vec![Identifier::Numeric(kani::any())];
        let has_pre: bool = kani::any();
        unsafe { pre_release.set_len(has_pre as usize) };
        Version { major, minor, patch, pre_release, build: Vec::new() }
    }
    fn any_pred() -> Predicate {
        let k: u8 = kani::any();
        let v = any_version();
        if k == 0 { forget(v); Predicate::Unbounded } else if k == 1 { Predicate::Including(v) } else { Predicate::Excluding(v) }
    }

    /// K1: Bound::cmp is antisymmetric on two arbitrary bounds
    #[kani::proof]
    #[kani::unwind(3)]
    fn k1_bound_cmp_antisym() {
        let a = if kani::any() { Bound::Lower(any_pred()) } else { Bound::Upper(any_pred()) };
        let b = if kani::any() { Bound::Lower(any_pred()) } else { Bound::Upper(any_pred()) };
        assert!(a.cmp(&b) == b.cmp(&a).reverse());
        forget(a); forget(b);
    }
}
