//! Native replay / differential harness: evaluates small programs over the crate's PUBLIC API only.
//! stdin: JSON array of programs; a program is an array of steps {"id": "...", "op": "...", ...}.
//! stdout: JSON array (one object per program) mapping step ids to results.
use nodejs_semver::{Identifier, Range, SemverError, Version};
use serde_json::{json, Map, Value};
use std::collections::hash_map::DefaultHasher;
use std::collections::HashMap;
use std::hash::{Hash, Hasher};
use std::io::Read;
use std::panic::{catch_unwind, AssertUnwindSafe};

#[derive(Clone)]
enum Val {
    R(Option<Range>),
    V(Option<Version>),
    E(Option<SemverError>),
}

fn ident(v: &Value) -> Identifier {
    if let Some(n) = v.get("n") {
        Identifier::Numeric(n.as_u64().unwrap())
    } else {
        Identifier::AlphaNumeric(v.get("s").unwrap().as_str().unwrap().to_string())
    }
}

fn ident_json(i: &Identifier) -> Value {
    match i {
        Identifier::Numeric(n) => json!({ "n": n }),
        Identifier::AlphaNumeric(s) => json!({ "s": s }),
    }
}

fn version_json(v: &Version) -> Value {
    json!({
        "major": v.major, "minor": v.minor, "patch": v.patch,
        "pre": v.pre_release.iter().map(ident_json).collect::<Vec<_>>(),
        "build": v.build.iter().map(ident_json).collect::<Vec<_>>(),
        "print": v.to_string(),
    })
}

fn err_json(e: &SemverError) -> Value {
    let loc = catch_unwind(AssertUnwindSafe(|| e.location()));
    json!({
        "ok": false,
        "kind": format!("{:?}", e.kind()),
        "display": e.to_string(),
        "input": e.input(),
        "offset": e.offset(),
        "span_len": e.span().len(),
        "location": match loc { Ok((l, c)) => json!([l, c]), Err(_) => json!("PANIC") },
    })
}

fn get_r<'a>(env: &'a HashMap<String, Val>, s: &Value, k: &str) -> Option<&'a Range> {
    match env.get(s.get(k)?.as_str()?)? {
        Val::R(Some(r)) => Some(r),
        _ => None,
    }
}

fn get_v<'a>(env: &'a HashMap<String, Val>, s: &Value, k: &str) -> Option<&'a Version> {
    match env.get(s.get(k)?.as_str()?)? {
        Val::V(Some(v)) => Some(v),
        _ => None,
    }
}

fn from_tuple(ty: &str, vals: &[i128]) -> Option<Version> {
    macro_rules! conv {
        ($t:ty) => {{
            let xs: Vec<$t> = vals.iter().map(|x| *x as $t).collect();
            if xs.len() == 3 {
                Some(Version::from((xs[0], xs[1], xs[2])))
            } else {
                Some(Version::from((xs[0], xs[1], xs[2], xs[3])))
            }
        }};
    }
    match ty {
        "u8" => conv!(u8),
        "u16" => conv!(u16),
        "u32" => conv!(u32),
        "u64" => conv!(u64),
        "usize" => conv!(usize),
        "i8" => conv!(i8),
        "i16" => conv!(i16),
        "i32" => conv!(i32),
        "i64" => conv!(i64),
        "isize" => conv!(isize),
        _ => None,
    }
}

fn step(env: &mut HashMap<String, Val>, s: &Value) -> Value {
    let op = s.get("op").and_then(|x| x.as_str()).unwrap_or("");
    let id = s.get("id").and_then(|x| x.as_str()).unwrap_or("_").to_string();
    match op {
        "range" => {
            let text = s["text"].as_str().unwrap();
            if text == "*any*" {
                let r = Range::any();
                let p = r.to_string();
                env.insert(id, Val::R(Some(r)));
                return json!({"ok": true, "print": p});
            }
            match Range::parse(text) {
                Ok(r) => {
                    let p = r.to_string();
                    env.insert(id, Val::R(Some(r)));
                    json!({"ok": true, "print": p})
                }
                Err(e) => {
                    let j = err_json(&e);
                    env.insert(id.clone(), Val::R(None));
                    env.insert(format!("{}!err", id), Val::E(Some(e)));
                    j
                }
            }
        }
        "version" => {
            let text = s["text"].as_str().unwrap();
            match Version::parse(text) {
                Ok(v) => {
                    let j = version_json(&v);
                    env.insert(id, Val::V(Some(v)));
                    json!({"ok": true, "v": j})
                }
                Err(e) => {
                    let j = err_json(&e);
                    env.insert(id.clone(), Val::V(None));
                    env.insert(format!("{}!err", id), Val::E(Some(e)));
                    j
                }
            }
        }
        "version_raw" => {
            let v = Version {
                major: s["major"].as_u64().unwrap(),
                minor: s["minor"].as_u64().unwrap(),
                patch: s["patch"].as_u64().unwrap(),
                pre_release: s["pre"].as_array().unwrap().iter().map(ident).collect(),
                build: s["build"].as_array().unwrap().iter().map(ident).collect(),
            };
            let j = version_json(&v);
            env.insert(id, Val::V(Some(v)));
            json!({"ok": true, "v": j})
        }
        "from_tuple" => {
            let vals: Vec<i128> = s["vals"].as_array().unwrap().iter().map(|x| {
                if let Some(u) = x.as_u64() { u as i128 } else { x.as_i64().unwrap() as i128 }
            }).collect();
            match from_tuple(s["ty"].as_str().unwrap(), &vals) {
                Some(v) => {
                    let j = version_json(&v);
                    env.insert(id, Val::V(Some(v)));
                    json!({"ok": true, "v": j})
                }
                None => json!({"ok": false}),
            }
        }
        "satisfies" => match (get_r(env, s, "r"), get_v(env, s, "v")) {
            (Some(r), Some(v)) => json!(r.satisfies(v)),
            _ => Value::Null,
        },
        "adm" => match (get_r(env, s, "r"), get_v(env, s, "v")) {
            // bounds membership observed through the public API: overlap with the exact range `=v`
            (Some(r), Some(v)) => {
                let mut w = v.clone();
                w.build.clear();
                match Range::parse(format!("={}", w)) {
                    Ok(x) => json!(r.allows_any(&x)),
                    Err(_) => Value::Null,
                }
            }
            _ => Value::Null,
        },
        "intersect" | "difference" => match (get_r(env, s, "a"), get_r(env, s, "b")) {
            (Some(a), Some(b)) => {
                let r = if op == "intersect" { a.intersect(b) } else { a.difference(b) };
                let j = match &r {
                    Some(x) => json!({"some": true, "print": x.to_string()}),
                    None => json!({"some": false}),
                };
                env.insert(id, Val::R(r));
                j
            }
            _ => Value::Null,
        },
        "allows_any" | "allows_all" => match (get_r(env, s, "a"), get_r(env, s, "b")) {
            (Some(a), Some(b)) => json!(if op == "allows_any" { a.allows_any(b) } else { a.allows_all(b) }),
            _ => Value::Null,
        },
        "range_eq" => match (get_r(env, s, "a"), get_r(env, s, "b")) {
            (Some(a), Some(b)) => json!(a == b),
            _ => Value::Null,
        },
        "min_version" => match get_r(env, s, "r") {
            Some(r) => {
                let m = r.min_version();
                let j = match &m {
                    Some(v) => json!({"some": true, "v": version_json(v)}),
                    None => json!({"some": false}),
                };
                env.insert(id, Val::V(m));
                j
            }
            _ => Value::Null,
        },
        "max_satisfying" | "min_satisfying" => {
            let r = match get_r(env, s, "r") { Some(r) => r.clone(), None => return Value::Null };
            let mut vs = Vec::new();
            for k in s["vs"].as_array().unwrap() {
                match env.get(k.as_str().unwrap()) {
                    Some(Val::V(Some(v))) => vs.push(v.clone()),
                    _ => return Value::Null,
                }
            }
            let res = if op == "max_satisfying" { r.max_satisfying(&vs) } else { r.min_satisfying(&vs) };
            match res {
                Some(p) => {
                    let idx = vs.iter().position(|x| std::ptr::eq(x, p));
                    json!({"some": true, "index": idx, "v": version_json(p)})
                }
                None => json!({"some": false}),
            }
        }
        "cmp" => match (get_v(env, s, "a"), get_v(env, s, "b")) {
            (Some(a), Some(b)) => json!({
                "cmp": a.cmp(b) as i8,
                "partial": a.partial_cmp(b).map(|o| o as i8),
                "eq": a == b, "lt": a < b, "le": a <= b, "gt": a > b, "ge": a >= b,
            }),
            _ => Value::Null,
        },
        "hash" => match get_v(env, s, "v") {
            Some(v) => { let mut h = DefaultHasher::new(); v.hash(&mut h); json!(h.finish().to_string()) }
            _ => Value::Null,
        },
        "diff" => match (get_v(env, s, "a"), get_v(env, s, "b")) {
            (Some(a), Some(b)) => match a.diff(b) { Some(d) => json!(d.to_string()), None => json!("none") },
            _ => Value::Null,
        },
        "is_prerelease" => match get_v(env, s, "v") { Some(v) => json!(v.is_prerelease()), _ => Value::Null },
        "print" => {
            match env.get(s["x"].as_str().unwrap()) {
                Some(Val::R(Some(r))) => json!(r.to_string()),
                Some(Val::V(Some(v))) => json!(v.to_string()),
                Some(Val::E(Some(e))) => json!(e.to_string()),
                _ => Value::Null,
            }
        }
        "render" => {
            // miette diagnostic accessors of a stored error
            match env.get(s["x"].as_str().unwrap()) {
                Some(Val::E(Some(e))) => {
                    use miette::Diagnostic;
                    let labels: Vec<(usize, usize)> = e.labels().map(|it| it.map(|l| (l.offset(), l.len())).collect()).unwrap_or_default();
                    let report = format!("{:?}", miette::Report::new(e.clone()));
                    json!({
                        "code": e.code().map(|c| c.to_string()),
                        "help": e.help().map(|c| c.to_string()),
                        "url": e.url().map(|c| c.to_string()),
                        "labels": labels,
                        "has_source": e.source_code().is_some(),
                        "report_len": report.len(),
                    })
                }
                _ => Value::Null,
            }
        }
        _ => json!({"error": format!("unknown op {}", op)}),
    }
}

fn main() {
    let mut buf = String::new();
    std::io::stdin().read_to_string(&mut buf).unwrap();
    let progs: Value = serde_json::from_str(&buf).expect("json");
    std::panic::set_hook(Box::new(|_| {}));
    let mut out = Vec::new();
    for prog in progs.as_array().unwrap() {
        let mut env: HashMap<String, Val> = HashMap::new();
        let mut res = Map::new();
        for s in prog.as_array().unwrap() {
            let id = s.get("id").and_then(|x| x.as_str()).unwrap_or("_").to_string();
            let r = catch_unwind(AssertUnwindSafe(|| step(&mut env, s)));
            match r {
                Ok(v) => { res.insert(id, v); }
                Err(p) => {
                    let msg = if let Some(s) = p.downcast_ref::<String>() { s.clone() } else if let Some(s) = p.downcast_ref::<&str>() { s.to_string() } else { "panic".to_string() };
                    res.insert(id, json!({"panic": msg}));
                }
            }
        }
        out.push(Value::Object(res));
    }
    println!("{}", serde_json::to_string(&out).unwrap());
}
