"""Oracles written from the specifications, independently of the crate's code (DESIGN.md section 5)."""
import z3
from .engine import AND, OR, NOT
from .values import payload


# ---------------------------------------------------------------- O-order: SemVer 2.0.0 section 11
def ident_lt_eq(x, y):
    """identifiers: Numeric < AlphaNumeric; numerics by value; alphanumerics by (abstract) ASCII order"""
    xn, yn = x.tag == 0, y.tag == 0
    xv, yv = payload(x, 0)[0].t, payload(y, 0)[0].t
    xs, ys = payload(x, 1)[0].t, payload(y, 1)[0].t
    lt = OR(AND(xn, yn, z3.ULT(xv, yv)), AND(xn, NOT(yn)), AND(NOT(xn), NOT(yn), z3.ULT(xs, ys)))
    eq = OR(AND(xn, yn, xv == yv), AND(NOT(xn), NOT(yn), xs == ys))
    return lt, eq


def idents_lt_eq(a, b):
    """lists compared left to right; a proper prefix is lower"""
    n = a.ty.cap
    lt, eq = z3.ULT(a.len, b.len), a.len == b.len        # both exhausted at the same time <=> same length
    for i in range(n - 1, -1, -1):
        if a.slots[i] is None or b.slots[i] is None:
            continue
        ha, hb = z3.UGT(a.len, i), z3.UGT(b.len, i)
        l, e = ident_lt_eq(a.slots[i], b.slots[i])
        both = AND(ha, hb)
        # position i: if both have an element: decide here unless equal; if only b has one: a is a prefix -> lower
        lt_i = z3.If(both, OR(l, AND(e, lt)), AND(NOT(ha), hb))
        eq_i = z3.If(both, AND(e, eq), AND(NOT(ha), NOT(hb)))
        lt, eq = lt_i, eq_i
    return lt, eq


def o_lt_eq(a, b):
    """(a < b, a == b) in SemVer precedence; build metadata ignored"""
    A, B = [a.fs[i].t for i in range(3)], [b.fs[i].t for i in range(3)]
    tl = OR(z3.ULT(A[0], B[0]), AND(A[0] == B[0], z3.ULT(A[1], B[1])), AND(A[0] == B[0], A[1] == B[1], z3.ULT(A[2], B[2])))
    te = AND(A[0] == B[0], A[1] == B[1], A[2] == B[2])
    pa, pb = a.fs[4], b.fs[4]
    apre, bpre = pa.len != 0, pb.len != 0
    il, ie = idents_lt_eq(pa, pb)
    lt = OR(tl, AND(te, apre, NOT(bpre)), AND(te, apre, bpre, il))
    eq = AND(te, OR(AND(NOT(apre), NOT(bpre)), AND(apre, bpre, ie)))
    return lt, eq


def o_cmp_tag(a, b):
    """Ordering tag (0 Less, 1 Equal, 2 Greater) per O-order"""
    lt, eq = o_lt_eq(a, b)
    return z3.If(lt, z3.BitVecVal(0, 8), z3.If(eq, z3.BitVecVal(1, 8), z3.BitVecVal(2, 8)))


# ---------------------------------------------------------------- O-diff: node-semver 7.5.4 functions/diff.js
DIFF_NAMES = ['major', 'minor', 'patch', 'premajor', 'preminor', 'prepatch', 'prerelease']      # VersionDiff variant order


def o_diff(a, b):
    """-> (is_none: Bool, code: BitVec8 index into DIFF_NAMES)"""
    lt, eq = o_lt_eq(a, b)
    v1_higher = AND(NOT(lt), NOT(eq))
    f = lambda i: (z3.If(v1_higher, a.fs[i].t, b.fs[i].t), z3.If(v1_higher, b.fs[i].t, a.fs[i].t))     # (high, low)
    (hmaj, lmaj), (hmin, lmin), (hpat, lpat) = f(0), f(1), f(2)
    apre, bpre = a.fs[4].len != 0, b.fs[4].len != 0
    high_pre = z3.If(v1_higher, apre, bpre)
    low_pre = z3.If(v1_higher, bpre, apre)
    c = lambda i: z3.BitVecVal(i, 8)
    # special casing: prerelease -> release
    special = z3.If(AND(lpat == 0, lmin == 0), c(0), z3.If(hpat != 0, c(2), z3.If(hmin != 0, c(1), c(0))))
    plain = z3.If(a.fs[0].t != b.fs[0].t, z3.If(high_pre, c(3), c(0)),
                  z3.If(a.fs[1].t != b.fs[1].t, z3.If(high_pre, c(4), c(1)),
                        z3.If(a.fs[2].t != b.fs[2].t, z3.If(high_pre, c(5), c(2)), c(6))))
    return eq, z3.If(AND(low_pre, NOT(high_pre)), special, plain)


# ---------------------------------------------------------------- Python re-implementations for judging native replays
def py_ident_key(i):
    return (0, i['n'], '') if 'n' in i else (1, 0, i['s'])


def py_cmp(a, b):
    """a, b: {'major','minor','patch','pre':[{'n':..}|{'s':..}]} -> -1/0/1 (SemVer precedence)"""
    ta, tb = (a['major'], a['minor'], a['patch']), (b['major'], b['minor'], b['patch'])
    if ta != tb:
        return -1 if ta < tb else 1
    pa, pb = a['pre'], b['pre']
    if not pa and not pb:
        return 0
    if not pa:
        return 1
    if not pb:
        return -1
    ka, kb = [py_ident_key(i) for i in pa], [py_ident_key(i) for i in pb]
    return -1 if ka < kb else (1 if ka > kb else 0)


def py_diff(a, b):
    c = py_cmp(a, b)
    if c == 0:
        return 'none'
    hi, lo = (a, b) if c > 0 else (b, a)
    hp, lp = bool(hi['pre']), bool(lo['pre'])
    if lp and not hp:
        if not lo['patch'] and not lo['minor']:
            return 'major'
        if hi['patch']:
            return 'patch'
        if hi['minor']:
            return 'minor'
        return 'major'
    pre = 'pre' if hp else ''
    if a['major'] != b['major']:
        return pre + 'major'
    if a['minor'] != b['minor']:
        return pre + 'minor'
    if a['patch'] != b['patch']:
        return pre + 'patch'
    return 'prerelease'


# ---------------------------------------------------------------- O-within / O-sat (formula over value trees, O-order based)
def o_within(h, bs, v):
    lo, hi = h.lower_pred(bs), h.upper_pred(bs)

    def lt(x, y):
        return o_lt_eq(x, y)[0]

    def le(x, y):
        l, e = o_lt_eq(x, y)
        return OR(l, e)
    lo_ok = z3.If(lo.tag == 2, z3.BoolVal(True), z3.If(lo.tag == 1, le(payload(lo, 1)[0], v), lt(payload(lo, 0)[0], v)))
    hi_ok = z3.If(hi.tag == 2, z3.BoolVal(True), z3.If(hi.tag == 1, le(v, payload(hi, 1)[0]), lt(v, payload(hi, 0)[0])))
    return AND(lo_ok, hi_ok)


def o_sat(h, bs, v):
    return AND(o_within(h, bs, v), OR(NOT(h.is_pre(v)), h.gate(bs, v)))


def py_within(bs, v):
    lo, hi = bs['lo'], bs['hi']
    ok = True
    if lo['k'] != 'U':
        c = py_cmp(lo['v'], v)
        ok = ok and (c <= 0 if lo['k'] == 'I' else c < 0)
    if hi['k'] != 'U':
        c = py_cmp(v, hi['v'])
        ok = ok and (c <= 0 if hi['k'] == 'I' else c < 0)
    return ok


def py_sat_bs(bs, v):
    if not py_within(bs, v):
        return False
    if not v['pre']:
        return True
    for p in (bs['lo'], bs['hi']):
        if p['k'] != 'U' and p['v']['pre'] and (p['v']['major'], p['v']['minor'], p['v']['patch']) == (v['major'], v['minor'], v['patch']):
            return True
    return False


def py_sat(rng, v):
    return any(py_sat_bs(b, v) for b in rng)


def py_adm(rng, v):
    return any(py_within(b, v) for b in rng)


def raw_version(v, names):
    from . import replay as rp
    return {'major': v['major'], 'minor': v['minor'], 'patch': v['patch'], 'pre': [rp.ident_raw(i, names) for i in v['pre']],
            'build': [rp.ident_raw(i, names) for i in v.get('build', [])]}


def raw_range(r, names):
    out = []
    for b in r:
        nb = {}
        for side in ('lo', 'hi'):
            p = b[side]
            nb[side] = {'k': p['k']} if p['k'] == 'U' else {'k': p['k'], 'v': raw_version(p['v'], names)}
        out.append(nb)
    return out
