"""Driver: ./check <id> [--tier quick|thorough] [--replay file]   (see DESIGN.md 3.10, section 8)"""
import argparse
import importlib
import json
import multiprocessing as mp
import os
import sys
import time
import traceback

from . import workspace, replay as rp

VERIF = workspace.VERIF
EVID = os.path.join(VERIF, 'evidence')
KNOWN = os.path.join(VERIF, 'known_findings.json')


def load_known():
    try:
        return json.load(open(KNOWN))
    except (OSError, ValueError):
        return {'open': [], 'fixed': []}


def _worker(args):
    mod_name, gname, tier, seed, ws, binary, active = args
    t0 = time.time()
    try:
        mod = importlib.import_module('msmt.props.' + mod_name)
        g = [x for x in mod.groups(tier) if x['name'] == gname][0]
        from .session import Session
        s = Session(gname, tier, seed, ws, binary, g.get('timeout_s'))
        s.known = set(active)
        try:
            g['fn'](s, **g.get('args', {}))
        except Exception as e:
            if 'rank mode:' not in str(e):
                raise
            # the (changed) code builds or inspects versions, which the order abstraction cannot follow: decide the
            # same obligations on the concrete order instead (slower; sizes stay as they are)
            import inspect
            params = inspect.signature(g['fn']).parameters
            extra = {}
            if 'concrete' in params:
                extra['concrete'] = True
            elif 'hybrid' in params:
                extra['hybrid'] = False
            else:
                raise
            s = Session(gname + '+concrete', tier, seed, ws, binary, g.get('timeout_s'))
            s.known = set(active)
            g['fn'](s, **dict(g.get('args', {}), **extra))
        out = s.report()
        out['group'] = gname
        mism = [r for r in out['results'] if r['verdict'] == 'inconclusive' and 'encoder-mismatch' in (r.get('detail') or '') and r.get('mode') == 'rank']
        if mism and g.get('rank_fallback'):
            # a rank-mode model whose fields are unconstrained did not reproduce: re-ask with the ranks tied to the
            # (major, minor, patch, has-prerelease) fields the code may have read (DESIGN.md 2.5), and keep that answer
            s2 = Session(gname + '+hybrid', tier, seed, ws, binary, g.get('timeout_s'))
            s2.known = set(active)
            g['fn'](s2, **dict(g.get('args', {}), hybrid=True))
            byname = {r['ob']: r for r in s2.results}
            for r in out['results']:
                if r in mism and r['ob'] in byname:
                    nr = byname[r['ob']]
                    r.clear()
                    r.update(nr)
                    r['note'] = 're-asked in hybrid mode after a rank-mode model did not reproduce natively'
            o2 = s2.report()
            for k, v in o2['stats'].items():
                if isinstance(v, (int, float)):
                    out['stats'][k] = out['stats'].get(k, 0) + v
    except workspace.Inconclusive as e:
        out = {'group': gname, 'results': [{'ob': gname, 'verdict': 'inconclusive', 'detail': str(e)}], 'stats': {}}
    except Exception as e:          # Unsupported MIR constructs, z3 errors, bugs of the machinery: never a verdict
        out = {'group': gname, 'results': [{'ob': gname, 'verdict': 'inconclusive',
                                            'detail': '%s: %s' % (type(e).__name__, str(e)[:400]),
                                            'trace': traceback.format_exc()[-1500:]}], 'stats': {}}
    out['wall_s'] = round(time.time() - t0, 2)
    return out


def _child(job, conn):
    import resource
    try:
        lim = int(os.environ.get('VERIF_GROUP_MEM_GB', '10')) << 30
        resource.setrlimit(resource.RLIMIT_AS, (lim, lim))
    except (ValueError, OSError):
        pass
    try:
        out = _worker(job)
    except MemoryError:
        out = {'group': job[1], 'results': [{'ob': job[1], 'verdict': 'inconclusive', 'detail': 'group exceeded its memory limit while encoding'}], 'stats': {}}
    try:
        conn.send(out)
    finally:
        conn.close()


def run_jobs(jobs, njobs, group_timeout):
    """one process per group, at most njobs at a time; a group that exceeds its wall-clock or memory budget is killed and
    reported as inconclusive (never as a pass)"""
    ctx = mp.get_context('fork')
    pending = list(jobs)
    running = []            # (proc, conn, job, t0)
    outs = []
    while pending or running:
        while pending and len(running) < max(1, njobs):
            job = pending.pop(0)
            pc, cc = ctx.Pipe(duplex=False)
            p = ctx.Process(target=_child, args=(job, cc))
            p.start()
            cc.close()
            running.append((p, pc, job, time.time()))
        still = []
        for p, pc, job, t0 in running:
            got = None
            if pc.poll(0.05):
                try:
                    got = pc.recv()
                except (EOFError, OSError):
                    got = None
                p.join(5)
                if got is None:
                    got = {'group': job[1], 'results': [{'ob': job[1], 'verdict': 'inconclusive', 'detail': 'worker process died (exit code %s): out of memory or crash' % p.exitcode}], 'stats': {}}
                outs.append(got)
            elif not p.is_alive():
                p.join(1)
                outs.append({'group': job[1], 'results': [{'ob': job[1], 'verdict': 'inconclusive', 'detail': 'worker process died (exit code %s): out of memory or crash' % p.exitcode}], 'stats': {}})
            elif time.time() - t0 > group_timeout:
                p.kill()
                p.join(5)
                outs.append({'group': job[1], 'results': [{'ob': job[1], 'verdict': 'inconclusive', 'detail': 'group exceeded its wall-clock budget of %ds (killed)' % group_timeout}], 'stats': {}, 'wall_s': round(time.time() - t0, 1)})
            else:
                still.append((p, pc, job, t0))
        running = still
    return outs


def main(argv=None):
    ap = argparse.ArgumentParser()
    ap.add_argument('prop')
    ap.add_argument('--tier', default=os.environ.get('VERIF_TIER', 'quick'))
    ap.add_argument('--replay')
    ap.add_argument('--jobs', type=int, default=int(os.environ.get('VERIF_JOBS', '0')) or max(2, (os.cpu_count() or 4) - 2))
    ap.add_argument('--only')
    a = ap.parse_args(argv)
    pid = a.prop.upper()
    tier = 'thorough' if a.tier.startswith('t') else 'quick'
    seed = int(os.environ.get('VERIF_SEED', '0') or 0)
    t0 = time.time()
    os.makedirs(EVID, exist_ok=True)
    os.makedirs(os.path.join(EVID, 'replay'), exist_ok=True)
    evp = os.path.join(EVID, pid + '.json')
    if a.replay:
        return do_replay(pid, a.replay)
    try:
        os.remove(evp)
    except OSError:
        pass
    try:
        ws = workspace.prepare()
        binary = rp.build()
    except workspace.Inconclusive as e:
        print('INCONCLUSIVE property=%s reason=%s' % (pid, str(e).replace('\n', ' ')[:300]))
        write_evidence(pid, tier, seed, [], {}, time.time() - t0, inconclusive=str(e))
        return 2
    mod_name = pid.lower()
    try:
        mod = importlib.import_module('msmt.props.' + mod_name)
    except ImportError as e:
        print('INCONCLUSIVE property=%s reason=no check module (%s)' % (pid, e))
        return 2
    active, msgs = active_known(pid, mod, binary)
    msgs_global[:] = msgs
    gs = mod.groups(tier)
    if a.only:
        gs = [g for g in gs if a.only in g['name']]
    order = list(range(len(gs)))
    if seed:
        import random
        random.Random(seed).shuffle(order)
    jobs = [(mod_name, gs[i]['name'], tier, seed, ws, binary, sorted(active)) for i in order]
    outs = run_jobs(jobs, a.jobs, 900 if tier == 'quick' else 4200)
    outs.sort(key=lambda o: o['group'])
    return finish(pid, tier, seed, outs, mod, time.time() - t0, msgs)


def active_known(pid, mod, binary):
    """open known findings of this property whose witness still reproduces natively: their class is excluded from the
    obligations (any other violation is still reported) and a KNOWN-FINDING line is printed for each"""
    active, msgs = set(), []
    table = getattr(mod, 'KNOWN', {})
    for k in load_known().get('open', []):
        if k.get('property') != pid:
            continue
        w = table.get(k.get('class'))
        if w is None:
            continue                      # a listed class this check does not implement suppresses nothing
        prog, judge = w()
        try:
            verdict, detail = judge(rp.run(binary, [prog])[0])
        except Exception as e:
            verdict, detail = 'error', str(e)
        if verdict == 'confirmed':
            active.add(k['class'])
            msgs.append((k, detail))
    return active, msgs


def finish(pid, tier, seed, outs, mod, wall, msgs=()):
    known = load_known()
    results = []
    for o in outs:
        for r in o['results']:
            r['group'] = o['group']
            results.append(r)
    viol, inconc, knownhits = [], [], []
    for r in results:
        if r['verdict'] == 'violated':
            k = match_known(pid, r, known)
            if k is not None:
                r['verdict'] = 'known'
                r['known'] = k['what']
                knownhits.append((k, r))
            else:
                viol.append(r)
        elif r['verdict'] == 'inconclusive':
            inconc.append(r)
    for k, detail in msgs:
        print('KNOWN-FINDING: property=%s %s [witness: %s]' % (pid, k['what'], detail[:200]))
    code = 0
    nrep = 0
    for r in viol:
        nrep += 1
        path = os.path.join(EVID, 'replay', '%s-%d.json' % (pid, nrep))
        json.dump({'property': pid, 'obligation': r['ob'], 'group': r['group'], 'case': r.get('case'), 'program': r.get('program'),
                   'native': r.get('native'), 'explain': r.get('detail')}, open(path, 'w'), indent=1, default=str)
        r['replay_file'] = path
        print('VIOLATION property=%s replay=%s' % (pid, path))
        print('  obligation: %s [%s]  %s' % (r['ob'], r['group'], (r.get('detail') or '')[:300]))
        code = 1
    if code == 0 and inconc:
        for r in inconc[:5]:
            print('INCONCLUSIVE property=%s reason=%s: %s' % (pid, r['ob'], (r.get('detail') or '').replace('\n', ' ')[:300]))
        code = 2
    stats = {}
    for o in outs:
        for k, v in o.get('stats', {}).items():
            if isinstance(v, (int, float)):
                stats[k] = stats.get(k, 0) + v
            elif isinstance(v, list):
                stats.setdefault(k, [])
                for x in v:
                    if x not in stats[k]:
                        stats[k].append(x)
    write_evidence(pid, tier, seed, results, stats, wall, mod=mod, groups=[{'group': o['group'], 'wall_s': o.get('wall_s')} for o in outs])
    n_ok = sum(1 for r in results if r['verdict'] == 'holds')
    print('%s %s: %d obligations, %d discharged, %d known, %d violated, %d inconclusive, %.1fs wall, %.1fs solver' % (
        pid, tier, len(results), n_ok, len(knownhits), len(viol), len(inconc), wall, stats.get('solver_s', 0)))
    return code


def match_known(pid, r, known):
    for k in known.get('open', []):
        if k.get('property') != pid:
            continue
        cls = r.get('class')
        if cls is not None and cls == k.get('class'):
            return k
    return None


msgs_global = []


def write_evidence(pid, tier, seed, results, stats, wall, mod=None, groups=None, inconclusive=None):
    samples = []
    for r in results[:60]:
        s = {'obligation': r['ob'], 'group': r.get('group'), 'verdict': r['verdict'], 'mode': r.get('mode'), 'solver_s': r.get('solver_s')}
        if r.get('case') is not None:
            s['model'] = r['case']
        if r.get('note'):
            s['note'] = r['note']
        samples.append(s)
    n = len([r for r in results if r.get('kind', 'prove') == 'prove'])
    ok = len([r for r in results if r['verdict'] in ('holds',) and r.get('kind', 'prove') == 'prove'])
    cov = {
        'states': int(stats.get('states', 0)) or 1 if results else 0,
        'transitions': int(stats.get('blocks', 0)) or 1 if results else 0,
        'traces_validated_against_impl': int(stats.get('validated', 0)),
        'samples': samples or [{'note': 'no obligation was run', 'reason': inconclusive}],
        'obligations': n,
        'discharged': ok,
        'vacuity_witnesses': len([r for r in results if r.get('kind') == 'cover' and r['verdict'] == 'holds']),
        'solver_time_s': round(stats.get('solver_s', 0), 2),
        'feasibility_queries': int(stats.get('feas', 0)),
        'functions_encoded': sorted(stats.get('encoded', [])),
        'std_models_used': sorted(stats.get('models', [])),
        'stubs': sorted(stats.get('stubs', [])),
        'groups': groups or [],
        'engine': 'MIR -> QF_BV symbolic execution (msmt) of the MIR dumped from /repo working tree %s' % stats.get('tree', ''),
    }
    if mod is not None:
        cov['bounds'] = getattr(mod, 'BOUNDS', {}).get(tier, getattr(mod, 'BOUNDS', {}))
        cov['outside_claim'] = getattr(mod, 'OUTSIDE', [])
    ev = {
        'property_id': pid, 'tier': tier, 'seed': seed, 'level': 'model_checking', 'coverage': cov,
        'assumptions': getattr(mod, 'ASSUMPTIONS', []) if mod is not None else [],
        'wall_s': round(wall, 2),
        'violations': len([r for r in results if r['verdict'] == 'violated']),
        'known_findings_hit': sorted({r['known'] for r in results if r['verdict'] == 'known'}),
        'known_findings_active': [k['what'] for k, _ in (msgs_global or [])],
        'inconclusive': len([r for r in results if r['verdict'] == 'inconclusive']),
    }
    if cov['states'] == 0:
        cov['states'] = 1
        cov['transitions'] = 1
    json.dump(ev, open(os.path.join(EVID, pid + '.json'), 'w'), indent=1, default=str)


def do_replay(pid, path):
    case = json.load(open(path))
    binary = rp.build()
    prog = case.get('program')
    if not prog:
        print('no program in ' + path)
        return 2
    res = rp.run(binary, [prog])[0]
    print(json.dumps(res, indent=1))
    return 0


if __name__ == '__main__':
    sys.exit(main())
