"""Engine K (DESIGN.md section 4): Kani 0.68 / CBMC as an independent second opinion on four leaf lemmas (thorough tier).
The harness modules are appended to a scratch copy of /repo's sources; /repo itself gets no hook."""
import os
import re
import shutil
import subprocess
import time

from . import workspace

HARNESS = {'k1_bound_cmp_antisym': ('src/range.rs', 'range_harness.rs'), 'k2_diff_sym': ('src/lib.rs', 'lib_harness.rs'),
           'k3_from_tuples': ('src/lib.rs', 'lib_harness.rs'), 'k4_cmp_laws': ('src/lib.rs', 'lib_harness.rs')}


def run_lemma(name, timeout_s=900, mem_gb=12):
    """-> ('successful' | 'failed' | 'error', seconds, tail of the log)"""
    src_file, hfile = HARNESS[name]
    root = os.path.join(workspace.WORK, 'kani-%s-%d' % (name, os.getpid()))
    shutil.rmtree(root, ignore_errors=True)
    crate = os.path.join(root, 'crate')
    os.makedirs(crate)
    try:
        for item in workspace.COPY_ITEMS:
            p = os.path.join(workspace.REPO, item)
            if os.path.isdir(p):
                shutil.copytree(p, os.path.join(crate, item))
            elif os.path.isfile(p):
                shutil.copy(p, os.path.join(crate, item))
        with open(os.path.join(crate, src_file), 'a') as f:
            f.write('\n' + open(os.path.join(workspace.VERIF, 'kani', hfile)).read())
        t = time.time()
        cmd = 'ulimit -v %d; exec timeout %d cargo kani --harness %s --no-assertion-reach-checks --target-dir %s' % (
            mem_gb * 1024 * 1024, timeout_s, name, os.path.join(workspace.WORK, 'target-kani'))
        r = subprocess.run(['bash', '-c', cmd], cwd=crate, env=workspace.env_offline(), stdout=subprocess.PIPE, stderr=subprocess.STDOUT)
        out = r.stdout.decode(errors='replace')
        dt = time.time() - t
        if re.search(r'VERIFICATION:- SUCCESSFUL', out):
            return 'successful', dt, out[-400:]
        if re.search(r'VERIFICATION:- FAILED', out) and 'Status: ERROR' not in out and 'unwinding assertion' not in out.lower():
            return 'failed', dt, out[-1200:]
        return 'error', dt, out[-800:]
    finally:
        shutil.rmtree(root, ignore_errors=True)


def cross_check(s, name, m_holds, what):
    """records the agreement of Kani with engine M on one lemma"""
    status, dt, tail = run_lemma(name)
    agree = (status == 'successful') == bool(m_holds) and status != 'error'
    s.add(ob='Kani cross-check %s: %s' % (name, what), mode='kani', solver_s=round(dt, 1), kind='prove',
          verdict='holds' if agree else 'inconclusive',
          detail='' if agree else 'engine M says %s, Kani says %s: %s' % ('holds' if m_holds else 'violated', status, tail[-300:].replace('\n', ' ')),
          note='Kani %s in %.0fs' % (status, dt))
    return status
