"""Parser for rustc's `-Zunpretty=mir` text (the nightly pinned in this image).

The output is a dict name -> [Body]; every statement / terminator is parsed once into small tuples
(see the grammar notes next to each parse_* function).  Nothing here knows about the crate.
"""
import re


class MirSyntax(Exception):
    pass


class Body:
    def __init__(self, name, kind):
        self.name = name            # e.g. "range::<impl at src/range.rs:26:1: 26:14>::new"
        self.kind = kind            # 'fn' | 'const'
        self.args = []              # ["_1", ...]
        self.locals = {}            # "_N" -> type string
        self.ret = None             # type string
        self.blocks = {}            # "bbN" -> Block
        self.order = []             # block names in file order
        self.header = ''

    def __repr__(self):
        return '<Body %s>' % self.name


class Block:
    def __init__(self, name, cleanup):
        self.name = name
        self.cleanup = cleanup
        self.stmts = []             # parsed statements
        self.term = None            # parsed terminator
        self.raw = []


# ------------------------------------------------------------------ small text helpers
OPEN, CLOSE = '([{<', ')]}>'


def split_top(s, sep=','):
    """split on `sep` at nesting depth 0; '<' '>' count as brackets except in '->' and '=>'"""
    out, depth, cur, i, n = [], 0, [], 0, len(s)
    in_str = False
    while i < n:
        c = s[i]
        if in_str:
            cur.append(c)
            if c == '\\':
                i += 1
                if i < n:
                    cur.append(s[i])
            elif c == '"':
                in_str = False
            i += 1
            continue
        if c == '"':
            in_str = True
            cur.append(c)
        elif c in OPEN and not (c == '<' and False):
            depth += 1
            cur.append(c)
        elif c in CLOSE:
            if c == '>' and i > 0 and s[i - 1] in '-=':
                cur.append(c)
            else:
                depth -= 1
                cur.append(c)
        elif c == sep and depth == 0:
            out.append(''.join(cur).strip())
            cur = []
        else:
            cur.append(c)
        i += 1
    last = ''.join(cur).strip()
    if last:
        out.append(last)
    return out


def match_paren(s, i):
    """index of the ')' matching the '(' at s[i] (only round parens counted; strings skipped)"""
    d, n, in_str = 0, len(s), False
    j = i
    while j < n:
        c = s[j]
        if in_str:
            if c == '\\':
                j += 1
            elif c == '"':
                in_str = False
        elif c == '"':
            in_str = True
        elif c == '(':
            d += 1
        elif c == ')':
            d -= 1
            if d == 0:
                return j
        j += 1
    return -1


# ------------------------------------------------------------------ places
# place   ::= _N | (*place) | *place | (place.N: T) | (place as Variant) | place[_N] | place[N of M]
def parse_place(s):
    s = s.strip()
    p, rest = _place_prefix(s)
    rest = rest.strip()
    while rest.startswith('['):
        j = rest.index(']')
        idx = rest[1:j]
        if re.match(r'^_\d+$', idx):
            p = ('index', p, idx)
        else:
            m = re.match(r'^(-?\d+) of (\d+)$', idx)
            if not m:
                raise MirSyntax('index ' + s)
            p = ('constindex', p, int(m.group(1)))
        rest = rest[j + 1:].strip()
    if rest:
        raise MirSyntax('trailing place text %r in %r' % (rest, s))
    return p


def _place_prefix(s):
    m = re.match(r'^(_\d+)', s)
    if m:
        return ('local', m.group(1)), s[m.end():]
    if s.startswith('*'):
        p, rest = _place_prefix(s[1:].lstrip())
        return ('deref', p), rest
    if s.startswith('('):
        j = match_paren(s, 0)
        if j < 0:
            raise MirSyntax('unbalanced place ' + s)
        inner, rest = s[1:j].strip(), s[j + 1:]
        if inner.startswith('*'):
            return ('deref', parse_place(inner[1:])), rest
        base, tail = _place_prefix(inner)
        tail_s = tail.strip()
        while tail_s.startswith('['):
            k = tail_s.index(']')
            idx = tail_s[1:k]
            if re.match(r'^_\d+$', idx):
                base = ('index', base, idx)
            else:
                mm = re.match(r'^(-?\d+) of (\d+)$', idx)
                base = ('constindex', base, int(mm.group(1)))
            tail_s = tail_s[k + 1:].strip()
        m = re.match(r'^\.(\d+): (.*)$', tail_s, re.S)
        if m:
            return ('field', base, int(m.group(1)), m.group(2).strip()), rest
        m = re.match(r'^as (\w+)$', tail_s)
        if m:
            return ('downcast', base, m.group(1)), rest
        if tail_s == '':
            return base, rest
        raise MirSyntax('place ' + s)
    raise MirSyntax('place ' + s)


def place_root(p):
    while p[0] != 'local':
        p = p[1]
    return p[1]


# ------------------------------------------------------------------ operands
def parse_operand(s):
    s = s.strip()
    for pre, kind in (('no_retag copy ', 'copy'), ('no_retag move ', 'move'), ('copy ', 'copy'), ('move ', 'move')):
        if s.startswith(pre):
            return (kind, parse_place(s[len(pre):]))
    if s.startswith('const '):
        return ('const', s[6:].strip())
    if re.match(r"^[A-Za-z_<(]", s) and not s.startswith('_'):
        return ('fnitem', s)            # a bare function item / constructor used as a value
    raise MirSyntax('operand ' + s)


BINOPS = ('AddWithOverflow', 'SubWithOverflow', 'MulWithOverflow', 'AddUnchecked', 'SubUnchecked', 'MulUnchecked',
          'Add', 'Sub', 'Mul', 'Div', 'Rem', 'BitAnd', 'BitOr', 'BitXor', 'Shl', 'Shr', 'ShlUnchecked', 'ShrUnchecked',
          'Eq', 'Ne', 'Lt', 'Le', 'Gt', 'Ge', 'Cmp', 'Offset')
UNOPS = ('Not', 'Neg', 'PtrMetadata')


# rvalue ::= operand | &place | &mut place | &raw const place | discriminant(place) | BinOp(a, b) | UnOp(a)
#          | operand as T (CastKind) | (a, b, ..) | [a, b] | [a; N] | Path::Variant(a, ..) | Path { f: a, .. } | Path
#          | {closure@span} { cap: a, .. } | Len(place)
def parse_rvalue(s):
    s = s.strip()
    if s.startswith('&'):
        m = re.match(r"^&(?:'\w+ )?(raw const |raw mut |mut |fake shallow |fake )?(.*)$", s, re.S)
        kind = (m.group(1) or '').strip()
        return ('ref', 'mut' if kind in ('mut', 'raw mut') else 'shared', parse_place(m.group(2)))
    m = re.match(r'^discriminant\((.*)\)$', s, re.S)
    if m:
        return ('discr', parse_place(m.group(1)))
    m = re.match(r'^Len\((.*)\)$', s, re.S)
    if m:
        return ('len', parse_place(m.group(1)))
    m = re.match(r'^(\w+)\((.*)\)$', s, re.S)
    if m and m.group(1) in BINOPS:
        a, b = split_top(m.group(2))
        return ('binop', m.group(1), parse_operand(a), parse_operand(b))
    if m and m.group(1) in UNOPS:
        return ('unop', m.group(1), parse_operand(m.group(2)))
    m = re.match(r'^(.*) as (.+?) \((\w+(?:\(.*\))?)\)$', s, re.S)
    if m and re.match(r'^(copy|move|const|no_retag) ', m.group(1)):
        return ('cast', parse_operand(m.group(1)), m.group(2).strip(), m.group(3))
    if re.match(r'^(copy|move|no_retag) ', s):
        return ('use', parse_operand(s))
    if s.startswith('const '):
        return ('use', parse_operand(s))
    if s.startswith('('):
        j = match_paren(s, 0)
        if j == len(s) - 1:
            inner = s[1:-1].strip()
            items = split_top(inner)
            return ('tuple', [parse_operand(x) for x in items])
    if s.startswith('['):
        inner = s[1:-1].strip()
        m = re.match(r'^(.*); (\w+)$', inner, re.S)
        if m and len(split_top(inner)) == 1:
            return ('repeat', parse_operand(m.group(1)), m.group(2))
        return ('array', [parse_operand(x) for x in split_top(inner)])
    m = re.match(r'^(\{closure@[^}]*\})(?: \{(.*)\})?$', s, re.S)
    if m:
        fields = []
        if m.group(2) and m.group(2).strip():
            for fa in split_top(m.group(2)):
                k, v = fa.split(': ', 1)
                fields.append((k.strip(), parse_operand(v)))
        return ('closure', m.group(1), fields)
    # ADT aggregates
    m = re.match(r'^(.+?) \{ (.*) \}$', s, re.S)
    if m and not m.group(1).startswith('('):
        fields = []
        for fa in split_top(m.group(2)):
            k, v = fa.split(': ', 1)
            fields.append((k.strip(), parse_operand(v)))
        return ('adt_named', m.group(1).strip(), fields)
    m = re.match(r'^(.+?)\((.*)\)$', s, re.S)
    if m and match_paren(s, len(m.group(1))) == len(s) - 1:
        return ('adt_tuple', m.group(1).strip(), [parse_operand(x) for x in split_top(m.group(2))])
    if re.match(r"^[\w:<>, &'\[\];()]+$", s):
        return ('adt_unit', s)
    raise MirSyntax('rvalue ' + s)


# ------------------------------------------------------------------ statements / terminators
NOP_RE = re.compile(r'^(StorageLive|StorageDead|nop|FakeRead|PlaceMention|Retag|AscribeUserType|Coverage|ConstEvalCounter|Deinit|BackwardIncompatibleDropHint)\b')


def parse_targets(s):
    """'[return: bb1, unwind: bb2]' | 'bb3' | 'unwind continue' ... -> dict"""
    s = s.strip()
    out = {}
    if s.startswith('['):
        for part in split_top(s[1:-1]):
            if ': ' in part:
                k, v = part.split(': ', 1)
                out[k.strip()] = v.strip()
            else:
                m = re.match(r'^unwind (.*)$', part)
                if m:
                    out['unwind'] = m.group(1)
    elif s.startswith('bb'):
        out['return'] = s
    else:
        m = re.match(r'^unwind (.*)$', s)
        if m:
            out['unwind'] = m.group(1)
    return out


def parse_line(line):
    """returns ('stmt', ...) or ('term', ...) or None for no-ops"""
    s = line.strip()
    if not s or s.startswith('//'):
        return None
    if NOP_RE.match(s):
        return None
    if s == 'return;':
        return ('term', ('return',))
    if s == 'unreachable;':
        return ('term', ('unreachable',))
    if s in ('resume;', 'abort;', 'terminate;') or s.startswith('terminate('):
        return ('term', ('resume',))
    m = re.match(r'^goto -> (bb\d+);$', s)
    if m:
        return ('term', ('goto', m.group(1)))
    m = re.match(r'^switchInt\((.*)\) -> \[(.*)\];$', s, re.S)
    if m:
        targets, otherwise = [], None
        for t in split_top(m.group(2)):
            k, b = t.split(': ')
            if k == 'otherwise':
                otherwise = b
            else:
                targets.append((int(k), b))
        return ('term', ('switch', parse_operand(m.group(1)), targets, otherwise))
    m = re.match(r'^drop\((.*)\) -> (.*);$', s, re.S)
    if m:
        return ('term', ('drop', parse_place(m.group(1)), parse_targets(m.group(2))))
    m = re.match(r'^assert\((.*)\) -> (\[.*\]);$', s, re.S)
    if m:
        parts = split_top(m.group(1))
        cond = parts[0]
        expected = True
        if cond.startswith('!'):
            expected = False
            cond = cond[1:]
        msg = parts[1] if len(parts) > 1 else ''
        return ('term', ('assert', parse_operand(cond), expected, msg, parse_targets(m.group(2))))
    # call: "<dest> = <callee>(<args>) -> <targets>;"   (callee may contain parens/generics)
    m = re.match(r'^(.*?) = (.*) -> (\[.*\]|bb\d+|unwind [\w() ]+);$', s, re.S)
    if m and m.group(2).rstrip().endswith(')'):
        body = m.group(2).rstrip()
        # find the '(' that opens the argument list: it matches the final ')'
        depth, k = 0, len(body) - 1
        while k >= 0:
            c = body[k]
            if c == ')':
                depth += 1
            elif c == '(':
                depth -= 1
                if depth == 0:
                    break
            k -= 1
        callee, argstr = body[:k].strip(), body[k + 1:-1]
        args = []
        for a in split_top(argstr):
            args.append(parse_operand(a))
        return ('term', ('call', parse_place(m.group(1)), callee, args, parse_targets(m.group(3))))
    m = re.match(r'^(.*?) = (.*);$', s, re.S)
    if m:
        return ('stmt', ('assign', parse_place(m.group(1)), parse_rvalue(m.group(2))))
    m = re.match(r'^discriminant\((.*)\) = (\d+);$', s)
    if m:
        return ('stmt', ('setdiscr', parse_place(m.group(1)), int(m.group(2))))
    raise MirSyntax('line ' + s)


def parse(text):
    bodies = {}
    consts = {}
    lines = text.split('\n')
    i, n = 0, len(lines)
    while i < n:
        l = lines[i]
        m = re.match(r'^fn (.+?)\((.*)\) -> (.+) \{$', l)
        mc = None if m else (re.match(r'^const (.+?promoted\[\d+\]): (.+) = \{$', l) or re.match(r'^const (.+): ([^:]+?) = \{$', l))
        if not m and not mc:
            ms = re.match(r'^const (\w+): (\w+) = const (-?\d+)_(\w+);$', l)
            if ms:
                consts[ms.group(1)] = (int(ms.group(3)), ms.group(4))
            i += 1
            continue
        if m:
            b = Body(m.group(1), 'fn')
            for a in split_top(m.group(2)):
                am = re.match(r'^(_\d+): (.+)$', a, re.S)
                b.args.append(am.group(1))
                b.locals[am.group(1)] = am.group(2).strip()
            b.ret = m.group(3).strip()
        else:
            b = Body(mc.group(1), 'const')
            b.ret = mc.group(2).strip()
        b.header = l
        i += 1
        cur = None
        while i < n and lines[i] != '}':
            raw = lines[i]
            s = raw.strip()
            i += 1
            if not s:
                continue
            mm = re.match(r'^let (?:mut )?(_\d+): (.+);$', s)
            if mm and cur is None:
                b.locals[mm.group(1)] = mm.group(2).strip()
                continue
            if cur is None and (s.startswith('debug ') or s.startswith('scope ') or s == '}' or s.startswith('let ')):
                continue
            mm = re.match(r'^(bb\d+)( \(cleanup\))?: \{$', s)
            if mm:
                cur = Block(mm.group(1), bool(mm.group(2)))
                b.blocks[cur.name] = cur
                b.order.append(cur.name)
                continue
            if s == '}':
                cur = None
                continue
            if cur is None:
                continue
            cur.raw.append(s)
            if cur.cleanup:
                continue
            try:
                r = parse_line(s)
            except (MirSyntax, ValueError, AttributeError, IndexError) as e:
                r = ('bad', (s, str(e)))
            if r is None:
                continue
            if r[0] == 'stmt':
                cur.stmts.append(r[1])
            elif r[0] == 'term':
                cur.term = r[1]
            else:
                cur.stmts.append(('bad',) + r[1])
        bodies.setdefault(b.name, []).append(b)
        i += 1
    return bodies, consts


# ------------------------------------------------------------------ CFG analysis (non-cleanup part)
def successors(term):
    k = term[0]
    if k == 'goto':
        return [term[1]]
    if k == 'switch':
        return [b for _, b in term[2]] + ([term[3]] if term[3] else [])
    if k in ('drop',):
        return [term[2]['return']] if 'return' in term[2] else []
    if k == 'call':
        return [term[4]['return']] if 'return' in term[4] else []
    if k == 'assert':
        return [term[4]['success']] if 'success' in term[4] else []
    return []


def analyse_cfg(body):
    """RPO numbers, back edges and the loop nest of every block (natural loops, reducible CFG assumed)."""
    if getattr(body, 'rpo', None) is not None:
        return
    succ = {}
    for name, blk in body.blocks.items():
        if blk.cleanup or blk.term is None:
            succ[name] = []
        else:
            succ[name] = [s for s in successors(blk.term) if s in body.blocks and not body.blocks[s].cleanup]
    order, seen = [], set()
    stack = [('bb0', iter(succ.get('bb0', [])))]
    seen.add('bb0')
    while stack:
        node, it = stack[-1]
        for s in it:
            if s not in seen:
                seen.add(s)
                stack.append((s, iter(succ[s])))
                break
        else:
            order.append(node)
            stack.pop()
    order.reverse()
    rpo = {b: i for i, b in enumerate(order)}
    # dominators (iterative)
    preds = {b: [] for b in order}
    for b in order:
        for s in succ[b]:
            if s in preds:
                preds[s].append(b)
    idom = {order[0]: order[0]}
    changed = True
    while changed:
        changed = False
        for b in order[1:]:
            ps = [p for p in preds[b] if p in idom]
            if not ps:
                continue
            new = ps[0]
            for p in ps[1:]:
                a, c = p, new
                while a != c:
                    while rpo[a] > rpo[c]:
                        a = idom[a]
                    while rpo[c] > rpo[a]:
                        c = idom[c]
                new = a
            if idom.get(b) != new:
                idom[b] = new
                changed = True

    def dominates(a, b):
        while True:
            if a == b:
                return True
            if b == idom.get(b):
                return False
            b = idom[b]
    back = set()
    loops = {}                       # head -> set of blocks
    for b in order:
        for s in succ[b]:
            if s in rpo and dominates(s, b):
                back.add((b, s))
                body_set = loops.setdefault(s, {s})
                work = [b]
                while work:
                    x = work.pop()
                    if x not in body_set:
                        body_set.add(x)
                        work.extend(preds[x])
    nest = {}
    for b in order:
        hs = [h for h, bs in loops.items() if b in bs]
        hs.sort(key=lambda h: (-len(loops[h]), rpo[h]))      # outermost first
        nest[b] = hs
    body.rpo, body.succ, body.back, body.loops, body.nest = rpo, succ, back, loops, nest
    body.has_loops = bool(loops)
