"""Native replay through the public API: builds the replay binary from /repo's working tree, renders decoded
models to texts / raw versions, runs programs."""
import json
import os
import shutil
import subprocess

from . import workspace

VERIF = workspace.VERIF
RDIR = os.path.join(VERIF, 'replay')


def build(profile='dev'):
    """(re)build against the current /repo tree; returns path of the binary"""
    lock_src = os.path.join(workspace.REPO, 'Cargo.lock')
    lock_dst = os.path.join(RDIR, 'Cargo.lock')
    try:
        if not os.path.exists(lock_dst) or open(lock_src, 'rb').read() != open(lock_dst, 'rb').read():
            shutil.copy(lock_src, lock_dst)
    except OSError:
        pass
    tdir = os.path.join(workspace.WORK, 'target-replay')
    cmd = ['cargo', 'build', '--offline', '--quiet'] + (['--release'] if profile == 'release' else [])
    r = subprocess.run(cmd, cwd=RDIR, env=dict(workspace.env_offline(), CARGO_TARGET_DIR=tdir, RUSTFLAGS='-Awarnings'),
                       stdout=subprocess.PIPE, stderr=subprocess.PIPE)
    if r.returncode != 0:
        raise workspace.Inconclusive('replay build failed: ' + r.stderr.decode(errors='replace')[-800:])
    return os.path.join(tdir, 'release' if profile == 'release' else 'debug', 'verif-replay')


def run(binary, programs, timeout=120):
    r = subprocess.run([binary], input=json.dumps(programs).encode(), stdout=subprocess.PIPE, stderr=subprocess.PIPE, timeout=timeout)
    if r.returncode != 0:
        raise workspace.Inconclusive('replay binary failed (%d): %s' % (r.returncode, r.stderr.decode(errors='replace')[-400:]))
    return json.loads(r.stdout.decode())


# ------------------------------------------------------------------ rendering decoded models
def tok_names(*structs):
    toks = set()

    def walk(x):
        if isinstance(x, dict):
            if 'tok' in x:
                toks.add(x['tok'])
            for v in x.values():
                walk(v)
        elif isinstance(x, (list, tuple)):
            for v in x:
                walk(v)
    for s in structs:
        walk(s)
    names = {}
    for i, t in enumerate(sorted(toks)):
        names[t] = chr(ord('a') + i) if i < 26 else 'z' * (i // 26) + chr(ord('a') + i % 26)
    return names


def ident_text(i, names):
    return str(i['n']) if 'n' in i else names[i['tok']]


def ident_raw(i, names):
    return {'n': i['n']} if 'n' in i else {'s': names[i['tok']]}


def version_text(v, names, build=True):
    s = '%d.%d.%d' % (v['major'], v['minor'], v['patch'])
    if v['pre']:
        s += '-' + '.'.join(ident_text(i, names) for i in v['pre'])
    if build and v.get('build'):
        s += '+' + '.'.join(ident_text(i, names) for i in v['build'])
    return s


def version_step(idn, v, names):
    return {'id': idn, 'op': 'version_raw', 'major': v['major'], 'minor': v['minor'], 'patch': v['patch'],
            'pre': [ident_raw(i, names) for i in v['pre']], 'build': [ident_raw(i, names) for i in v.get('build', [])]}


def bs_text(bs, names):
    lo, hi = bs['lo'], bs['hi']
    vt = lambda p: version_text(p['v'], names)
    if lo['k'] == 'U' and hi['k'] == 'U':
        return '*any*'
    if lo['k'] == 'U':
        return ('<=' if hi['k'] == 'I' else '<') + vt(hi)
    if hi['k'] == 'U':
        return ('>=' if lo['k'] == 'I' else '>') + vt(lo)
    if lo['k'] == 'I' and hi['k'] == 'I' and version_text(lo['v'], names, False) == version_text(hi['v'], names, False):
        return vt(lo)
    return '%s%s %s%s' % ('>=' if lo['k'] == 'I' else '>', vt(lo), '<=' if hi['k'] == 'I' else '<', vt(hi))


def range_text(r, names):
    parts = [bs_text(b, names) for b in r]
    if parts == ['*any*']:
        return '*any*'
    return '||'.join(parts)


def range_step(idn, r, names):
    return {'id': idn, 'op': 'range', 'text': range_text(r, names)}


def constructed(res, idn, step):
    """the native parse of a rendered range printed back exactly what was rendered (or `*` for any)"""
    x = res.get(idn)
    if not isinstance(x, dict) or not x.get('ok'):
        return False
    want = step['text']
    if want == '*any*':
        return x['print'] == '*'
    return x['print'] == want
