"""Tokenizer stubs (DESIGN.md 3.6): winnow parser objects and leaf parsers are replaced by nondeterministic values of
their return types under an explicit contract.  Everything a stub hides is outside the claim."""
import re
import z3
from .engine import Ref, Unsupported, AND, OR, NOT
from .types import TCell
from .values import Opq, fresh, payload, is_variant, mk_variant, ite, St, Sc

MAXS = 900719925474099


def _fresh_result(eng, callee, dest_ts, st, where, constrain=None):
    t = eng.ty(dest_ts)
    wf = []
    v = fresh(t, 'stub', wf)
    if constrain is not None:
        wf += constrain(v)
    eng.assume(wf)
    eng.stub_wf += wf
    eng.stub_log.append((callee, v))
    return v


def install_tokenizer_stubs(eng):
    """parser-object constructors return opaque values; `parse_next` on them and the leaf parsers return arbitrary results"""
    eng.stub_wf = []
    eng.always_inline |= {'partial_version', 'parser', 'range::parser', 'hyphen::parser'}

    def ctor(e, callee, args, dest_ts, st, where):
        return Opq('parser-object ' + callee[:40])

    def parse_next(e, callee, args, dest_ts, st, where):
        return _fresh_result(e, callee, dest_ts, st, where)

    def component(e, callee, args, dest_ts, st, where):
        # contract of `component` = alt(x_or_asterisk -> None, number -> Some(n)); n <= MAX_SAFE_INTEGER is what
        # number::{closure#0} guarantees (discharged separately on its MIR)
        def c(v):
            ok = payload(v, 'Ok')[0]
            return [z3.Implies(AND(is_variant(v, 'Ok'), is_variant(ok, 'Some')), z3.ULE(payload(ok, 'Some')[0].t, MAXS))]
        return _fresh_result(e, callee, dest_ts, st, where, c)

    def opt_component(e, callee, args, dest_ts, st, where):
        def c(v):
            ok = payload(v, 'Ok')[0]                 # Option<Option<u64>>
            inner = payload(ok, 'Some')[0]
            return [z3.Implies(AND(is_variant(v, 'Ok'), is_variant(ok, 'Some'), is_variant(inner, 'Some')), z3.ULE(payload(inner, 'Some')[0].t, MAXS))]
        return _fresh_result(e, callee, dest_ts, st, where, c)

    def extras(e, callee, args, dest_ts, st, where):
        def c(v):
            ok = payload(v, 'Ok')[0]
            L = e.tenv.caps.get('Identifier', 2) - 1
            return [z3.ULE(ok.fs[0].len, L), z3.ULE(ok.fs[1].len, L)]
        return _fresh_result(e, callee, dest_ts, st, where, c)

    def opt_partial(e, callee, args, dest_ts, st, where):
        # opt(partial_version): Ok(Some(p)) with p produced by the real partial_version MIR, or Ok(None), or a hard error
        body = e.resolve('partial_version')
        if body is None:
            raise Unsupported('partial_version not found')
        r = e.call_body(body, [args[1]], st, where)            # Result<Partial, ErrMode<..>>
        t = e.ty(dest_ts)
        ot = t.variants[t.vindex('Ok')][1][0]
        choice = z3.Bool('stub_opt_partial!%d' % len(e.stub_log))
        e.stub_log.append((callee, choice))
        some = mk_variant(t, 'Ok', [mk_variant(ot, 'Some', [payload(r, 'Ok')[0]])])
        none = mk_variant(t, 'Ok', [mk_variant(ot, 'None')])
        err = mk_variant(t, 'Err', [payload(r, 'Err')[0]])
        return ite(is_variant(r, 'Ok'), some, ite(choice, none, err))

    S = eng.stubs
    S.append((re.compile(r'^<\{closure@opt<&str, range::Partial,.*\} as Parser<.*>>::parse_next$', re.S), opt_partial))
    S.append((re.compile(r'^<\{closure@opt<&str, Option<u64>,.*\} as Parser<.*>>::parse_next$', re.S), opt_component))
    S.append((re.compile(r'^<.* as Parser<.*>>::parse_next$', re.S), parse_next))
    S.append((re.compile(r'^(?:winnow::\w+::)*(literal|opt|preceded|alt|terminated|delimited|peek|separated|repeat_till|take_while)::<.*$', re.S), ctor))
    S.append((re.compile(r'^(?:winnow::\w+::)*(space0|space1|digit1|eof|any)::<.*$', re.S), parse_next))
    S.append((re.compile(r'^component$'), component))
    S.append((re.compile(r'^extras$'), extras))
    S.append((re.compile(r'^<.* as Parser<.*>>::(map|try_map|context|take)(?:::<.*>)?$', re.S), ctor))
