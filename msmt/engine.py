"""Symbolic executor for the crate's MIR: fork at branches, merge at joins (and at loop heads), summaries.

A run produces, for a MIR body and argument value trees, the merged return value plus the conditions under
which the body panics or exceeds a capacity bound.  See DESIGN.md section 3.
"""
import re
import time
import heapq
import z3
from . import mir
from .mir import split_top
from .types import (TInt, TBool, TStruct, TEnum, TVec, TOpaque, TCell, UNIT, BOOL, ORDERING, STRTOK, STRSLICE,
                    U64, USIZE, ISIZE, INTS)
from .values import (Sc, St, En, Vc, Opq, UNITV, bv, fresh, default, leaves, vmap, ite, mk_variant, is_variant,
                     payload, discr, simp, pair_leaves, substituter)


class Unsupported(Exception):
    pass


class BoundExceeded(Exception):
    pass


# ------------------------------------------------------------------ Python-level helper values
class Ref:
    """pointer to a place of the current frame: root local + normalised projection path"""
    __slots__ = ('root', 'path')

    def __init__(self, root, path=()):
        self.root, self.path = root, tuple(path)

    def __repr__(self):
        return 'Ref(%s%s)' % (self.root, ''.join('.%s' % (p,) for p in self.path))

    def leaves(self, out):
        return out

    def vmap(self, f):
        return self

    def ite(self, c, other):
        if isinstance(other, Ref) and other.root == self.root and other.path == self.path:
            return self
        raise Unsupported('merge of different references %r / %r' % (self, other))


class Clo:
    """closure value: span string + captured values"""
    __slots__ = ('span', 'caps')

    def __init__(self, span, caps):
        self.span, self.caps = span, caps

    def __repr__(self):
        return 'Clo(%s)' % self.span

    def leaves(self, out):
        for c in self.caps:
            leaves(c, out)
        return out

    def vmap(self, f):
        return Clo(self.span, [vmap(f, c) for c in self.caps])

    def ite(self, c, other):
        if not isinstance(other, Clo) or other.span != self.span:
            raise Unsupported('merge of different closures')
        return Clo(self.span, [ite(c, x, y) for x, y in zip(self.caps, other.caps)])


class It:
    """iterator pipeline: kind in src|map|filter|flatten; `vec` (Vc) + symbolic index for src"""
    __slots__ = ('kind', 'a', 'b')

    def __init__(self, kind, a, b=None):
        self.kind, self.a, self.b = kind, a, b

    def __repr__(self):
        return 'It(%s)' % self.kind

    def leaves(self, out):
        leaves(self.a, out)
        if self.kind == 'src':
            out.append(self.b)
        else:
            leaves(self.b, out)
        return out

    def vmap(self, f):
        if self.kind == 'src':
            return It('src', vmap(f, self.a), f(self.b))
        return It(self.kind, vmap(f, self.a), vmap(f, self.b))

    def ite(self, c, other):
        if not isinstance(other, It) or other.kind != self.kind:
            raise Unsupported('merge of different iterators')
        if self.kind == 'src':
            return It('src', ite(c, self.a, other.a), self.b if self.b.eq(other.b) else z3.If(c, self.b, other.b))
        return It(self.kind, ite(c, self.a, other.a), ite(c, self.b, other.b))


class Down:
    """transient: a place downcast to a variant"""
    __slots__ = ('en', 'idx')

    def __init__(self, en, idx):
        self.en, self.idx = en, idx


DIVERGE = object()


class NoValue:
    """result of a callback that cannot return under its guard (the guard is infeasible or every path panics):
    merges as 'no value'; asking it for a boolean gives False"""
    t = z3.BoolVal(False)
    tag = z3.BitVecVal(0, 8)

    def ite(self, c, other):
        return other



def T(x):
    return z3.BoolVal(True) if x else z3.BoolVal(False)


def AND(*xs):
    ys = []
    for x in xs:
        if z3.is_true(x):
            continue
        if z3.is_false(x):
            return x
        ys.append(x)
    if not ys:
        return z3.BoolVal(True)
    return ys[0] if len(ys) == 1 else z3.And(*ys)


def OR(*xs):
    ys = []
    for x in xs:
        if z3.is_false(x):
            continue
        if z3.is_true(x):
            return x
        ys.append(x)
    if not ys:
        return z3.BoolVal(False)
    return ys[0] if len(ys) == 1 else z3.Or(*ys)


def NOT(x):
    if z3.is_true(x):
        return z3.BoolVal(False)
    if z3.is_false(x):
        return z3.BoolVal(True)
    return z3.Not(x)


class Sink:
    def __init__(self):
        self.panics = []      # (kind, where, cond)
        self.bexc = []        # (where, cond)


class Summary:
    def __init__(self, formals, ret, outs, sink, wf):
        self.formals, self.ret, self.outs, self.sink, self.wf = formals, ret, outs, sink, wf


class State:
    __slots__ = ('bb', 'env', 'pc', 'cnt')

    def __init__(self, bb, env, pc, cnt):
        self.bb, self.env, self.pc, self.cnt = bb, env, pc, cnt


WRAPPER_RE = re.compile(r'^(?:std::mem::|core::mem::|std::boxed::|std::ptr::|core::ptr::|alloc::boxed::)?'
                        r'(MaybeUninit|ManuallyDrop|MaybeDangling|Box|Unique|NonNull)<')


def last_segment(path):
    """last `::` segment of a path with all generic argument lists removed"""
    out, d = [], 0
    for i, c in enumerate(path):
        if c == '<':
            d += 1
        elif c == '>' and not (i > 0 and path[i - 1] in '-='):
            d -= 1
        elif d == 0:
            out.append(c)
    return ''.join(out).replace(' ', '').rstrip(':').split('::')[-1]


def strip_ptr(t):
    t = t.strip()
    m = re.match(r"^&(?:'\w+ )?(?:mut )?(.+)$", t, re.S) or re.match(r'^\*(?:const|mut) (.+)$', t, re.S)
    if m:
        return m.group(1).strip()
    m = re.match(r'^(?:std::boxed::|alloc::boxed::)?Box<(.+)>$', t, re.S)
    if m:
        return split_top(m.group(1))[0]
    return t


def default_cap_of(tenv):
    return tenv.default_cap


class Engine:
    def __init__(self, bodies, consts, tenv, sources, feas_timeout_ms=300):
        self.bodies, self.consts, self.tenv, self.sources = bodies, consts, tenv, sources
        self.summaries = {}
        self.overrides = {}             # id(body) -> python fn(engine, args, pc) -> value
        self.stubs = []                 # (regex, handler(engine, callee, args, dest_ty, st)) tried before everything
        self.inline_all = False         # translator validation: constant arguments, so executing bodies beats summarising them
        self.always_inline = set()      # bodies that contain nondeterministic stubs: a summary would share their choices
        self.stub_log = []              # (callee, returned fresh value)
        self.watch = set()              # body names whose inlined results are recorded in watch_log
        self.watch_log = []
        self.models = []                # std models, filled by stdmodels.install
        self.sinks = [Sink()]
        self.assumptions = []
        self.defs = []
        self.define_enabled = True
        self.stats = {'blocks': 0, 'states': 0, 'merges': 0, 'feas': 0, 'feas_s': 0.0, 'summaries': 0, 'inlined': 0, 'calls': 0}
        self.coverage = {}              # body name -> set of blocks
        self.used_models = set()
        self.used_stubs = set()
        self.encoded = set()
        self.solver = z3.SolverFor('QF_BV')
        self.solver.set('timeout', feas_timeout_ms)
        self.feas_timeout_ms = feas_timeout_ms
        self.uses_fp = False
        self.n_assumed = 0
        self.n_defs = 0
        self.derives = set()
        self.heap_n = 0
        self.max_iter = max([default_cap_of(tenv)] + list(tenv.caps.values())) + 2
        self.rank_mode = False
        self.impls = {}
        self.closures = {}
        self.free_fns = {}
        self._index()

    # ------------------------------------------------------------ function table
    def _index(self):
        for name, bl in self.bodies.items():
            for b in bl:
                if b.kind != 'fn':
                    continue
                m = re.match(r'^(?:\w+::)*<impl at (src/\w+\.rs):(\d+):(\d+): (\d+):(\d+)>::(\w+)$', name)
                if m:
                    F, L, C, L2, C2, meth = m.groups()
                    ty, tr, derived = self._impl_header(F, int(L), int(C), int(L2), int(C2))
                    self.impls.setdefault((ty, tr, meth), []).append(b)
                    if derived:
                        self.derives.add(id(b))
                    continue
                if '{closure#' in name:
                    if b.args:
                        t0 = b.locals[b.args[0]]
                        mm = re.search(r'\{closure@([^}]*)\}', t0)
                        if mm:
                            self.closures[mm.group(1)] = b
                    continue
                if '<impl' in name:
                    continue
                for key in {name.split('::')[-1], name}:
                    self.free_fns.setdefault(key, []).append(b)

    def _impl_header(self, F, L, C, L2, C2):
        lines = self.sources[F]
        txt = lines[L - 1][C - 1:C2 - 1] if L == L2 else lines[L - 1][C - 1:]
        if txt.startswith('impl'):
            h = re.sub(r'^impl\s*(<[^>]*>)?\s+', '', txt)
            h = re.sub(r"<'\w+>", '', h)
            if ' for ' in h:
                tr, ty = h.split(' for ', 1)
            else:
                tr, ty = None, h
            if tr:
                tr = re.sub(r'<.*$', '', tr.strip()).split('::')[-1]
            ty = re.sub(r'<.*$', '', ty.strip()).split('::')[-1]
            return ty, tr, False
        tr = txt.strip()
        ty = None
        for k in range(L - 1, min(L + 8, len(lines))):
            mm = re.match(r'\s*(?:pub(?:\([^)]*\))? )?(?:struct|enum) (\w+)', lines[k])
            if mm:
                ty = mm.group(1)
                break
        return ty, tr, True

    def is_derive(self, body):
        return id(body) in self.derives

    def find(self, ty, tr, meth, argsig=None):
        c = self.impls.get((ty, tr, meth))
        if not c:
            return None
        if len(c) == 1 or argsig is None:
            return c[0]
        for b in c:
            if b.locals[b.args[0]].replace(' ', '') == argsig.replace(' ', ''):
                return b
        return None

    def resolve(self, callee):
        """crate function named by a MIR callee string, or None"""
        c = callee.strip()
        m = re.match(r'^<(.+) as (.+?)>::(\w+)(?:::<.*>)?$', c, re.S)
        if m:
            ty, tr, meth = m.group(1).strip(), m.group(2).strip(), m.group(3)
            trn = re.sub(r'<.*$', '', tr).split('::')[-1]
            tyn = re.sub(r'<.*$', '', ty).split('::')[-1]
            if trn == 'Into' and meth == 'into':
                target = re.match(r'^Into<(.+)>$', tr, re.S).group(1).split('::')[-1]
                return self.find(target, 'From', 'from', ty)
            if trn == 'From' and meth == 'from':
                src = re.match(r'^From<(.+)>$', tr, re.S).group(1)
                return self.find(tyn, 'From', 'from', src)
            if ty.startswith('&') or ty.startswith('Box<') or ty.startswith('std::boxed::Box<'):
                return None
            return self.find(tyn, trn, meth)
        m = re.match(r'^((?:\w+::)*)(\w+)::(\w+)(?:::<.*>)?$', c)
        if m:
            b = self.find(m.group(2), None, m.group(3))
            if b:
                return b
        m = re.match(r'^((?:\w+::)*\w+)(?:::<.*>)?$', c)
        if m:
            fl = self.free_fns.get(m.group(1)) or self.free_fns.get(m.group(1).split('::')[-1])
            if fl and (len(fl) == 1 or len({b.header for b in fl}) == 1):
                return fl[0]                      # constructor shims are dumped twice with identical bodies
        return None

    def closure_body(self, span):
        b = self.closures.get(span)
        if b is None:
            raise Unsupported('closure body ' + span)
        return b

    # ------------------------------------------------------------ rank abstraction (DESIGN.md 2.5)
    def enable_rank_mode(self, bits):
        """answer Version::cmp / Version::eq by a ghost rank leaf; must be called before any type is built"""
        if self.tenv.cache or self.tenv.generic_cache:
            raise RuntimeError('rank mode must be enabled before types are used')
        self.rank_mode = True
        self.rank_bits = bits
        self.tenv.ghost['Version'] = [('@rank', TInt(bits, False, 'rank'))]
        vcmp, veq = self.find('Version', 'Ord', 'cmp'), self.find('Version', 'PartialEq', 'eq')
        if vcmp is None or veq is None:
            raise Unsupported('Version::cmp / Version::eq not found')

        def rk(v):
            return v.fs[-1].t
        self.overrides[id(vcmp)] = lambda eng, args, pc: eng.ordering(z3.ULT(rk(args[0]), rk(args[1])), rk(args[0]) == rk(args[1]))
        self.overrides[id(veq)] = lambda eng, args, pc: Sc(rk(args[0]) == rk(args[1]))

    # ------------------------------------------------------------ solver helpers
    def assume(self, cs):
        for c in cs:
            self.assumptions.append(c)

    def _sync(self):
        while self.n_assumed < len(self.assumptions):
            self.solver.add(self.assumptions[self.n_assumed])
            self.n_assumed += 1
        while self.n_defs < len(self.defs):
            self.solver.add(self.defs[self.n_defs])
            self.n_defs += 1

    def fact(self, c):
        """a consequence of the value-model invariants (e.g. len <= structural bound): helps pruning only"""
        self.assumptions.append(c)

    def feasible(self, cond):
        cond = z3.simplify(cond)
        if z3.is_true(cond):
            return True
        if z3.is_false(cond):
            return False
        self._sync()
        t = time.time()
        self.solver.push()
        self.solver.add(cond)
        r = self.solver.check()
        self.solver.pop()
        self.stats['feas'] += 1
        self.stats['feas_s'] += time.time() - t
        return r != z3.unsat

    @property
    def sink(self):
        return self.sinks[-1]

    def panic(self, kind, where, cond):
        cond = z3.simplify(cond)
        if z3.is_false(cond):
            return
        self.sink.panics.append((kind, where, cond))

    def bound_exceeded(self, where, cond):
        cond = z3.simplify(cond)
        if z3.is_false(cond):
            return
        self.sink.bexc.append((where, cond))

    def define(self, v, name='r'):
        """bind the non-trivial leaves of v to fresh variables (defining equalities); top level only"""
        if not self.define_enabled or len(self.sinks) != 1:
            return v

        def f(t):
            t = z3.simplify(t)
            if t.num_args() == 0 or (t.num_args() == 1 and t.arg(0).num_args() == 0):
                return t
            if z3.is_bool(t):
                x = z3.Bool('%s!d%d' % (name, len(self.defs)))
            else:
                x = z3.BitVec('%s!d%d' % (name, len(self.defs)), t.size())
            self.defs.append(x == t)
            return x
        return vmap(f, v)

    # ------------------------------------------------------------ types of places / operands
    def ty(self, s):
        return self.tenv.parse(s)

    def place_type(self, body, p):
        k = p[0]
        if k == 'local':
            return body.locals.get(p[1], '?')
        if k == 'field':
            return p[3]
        if k == 'deref':
            return strip_ptr(self.place_type(body, p[1]))
        if k == 'downcast':
            return self.place_type(body, p[1])
        if k in ('index', 'constindex'):
            t = self.place_type(body, p[1])
            m = re.match(r'^\[(.+?)(?:; \d+)?\]$', t, re.S)
            return m.group(1) if m else '?'
        return '?'

    def operand_type(self, body, op):
        if op[0] in ('copy', 'move'):
            return self.place_type(body, op[1])
        if op[0] == 'const':
            m = re.match(r'^-?\d+_(\w+)$', op[1])
            if m:
                return m.group(1)
            if op[1] in ('true', 'false'):
                return 'bool'
            if op[1] in self.consts:
                return self.consts[op[1]][1]
            m = re.match(r'^(?:core|std)::num::<impl (\w+)>::(MAX|MIN)$', op[1]) or re.match(r'^(\w+)::(MAX|MIN)$', op[1])
            if m and m.group(1) in INTS:
                return m.group(1)
            if op[1].startswith("'"):
                return 'char'
        return '?'

    # ------------------------------------------------------------ places
    def read_ref(self, st, r):
        v = st.env.get(r.root)
        for step in r.path:
            if v is None:
                raise Unsupported('read through dangling reference %r' % (r,))
            v = self._project(v, step)
        return v

    @staticmethod
    def _project(v, step):
        k = step[0]
        if k == 'f':
            if isinstance(v, (St,)):
                return v.fs[step[1]]
            if isinstance(v, Clo):
                return v.caps[step[1]]
            raise Unsupported('field of %r' % (v,))
        if k == 'v':
            return payload(v, step[1])[step[2]]
        if k == 's':
            return v.slots[step[1]]
        if k == 'si':                               # element at a symbolic index (last_mut / get_mut / first_mut)
            r = None
            for i in range(v.n - 1, -1, -1):
                if v.slots[i] is None:
                    continue
                r = v.slots[i] if r is None else ite(step[1] == i, v.slots[i], r)
            return r
        raise Unsupported('projection %r' % (step,))

    def write_ref(self, st, r, f):
        def upd(v, path):
            if not path:
                return f(v)
            step = path[0]
            if step[0] == 'f':
                if isinstance(v, Clo):
                    caps = list(v.caps)
                    caps[step[1]] = upd(caps[step[1]], path[1:])
                    return Clo(v.span, caps)
                fs = list(v.fs)
                fs[step[1]] = upd(fs[step[1]], path[1:])
                return St(v.ty, fs)
            if step[0] == 'v':
                vs = list(v.vs)
                p = list(payload(v, step[1]))
                p[step[2]] = upd(p[step[2]], path[1:])
                vs[step[1]] = p
                return En(v.ty, v.tag, vs)
            if step[0] == 's':
                sl = list(v.slots)
                sl[step[1]] = upd(sl[step[1]], path[1:])
                return Vc(v.ty, v.len, sl, v.n)
            if step[0] == 'si':
                sl = list(v.slots)
                for i in range(v.n):
                    if sl[i] is not None:
                        sl[i] = ite(step[1] == i, upd(sl[i], path[1:]), sl[i])
                return Vc(v.ty, v.len, sl, v.n)
            raise Unsupported('write projection %r' % (step,))
        st.env[r.root] = upd(st.env.get(r.root), r.path)

    def place_ref(self, body, st, p):
        """normalise a place to a Ref (root local + path), resolving derefs of existing Refs"""
        k = p[0]
        if k == 'local':
            return Ref(p[1])
        if k == 'deref':
            inner = self.read_place(body, st, p[1])
            if isinstance(inner, Ref):
                return inner
            return self.place_ref(body, st, p[1])          # transparent pointer: the value lives in the local itself
        if k == 'field':
            bt = self.place_type(body, p[1])
            base = self.place_ref(body, st, p[1])
            if WRAPPER_RE.match(bt):
                return base
            if p[1][0] == 'downcast':
                return base                                  # handled in the downcast branch below
            return Ref(base.root, base.path + (('f', p[2]),))
        if k == 'downcast':
            raise Unsupported('reference to a bare downcast')
        if k == 'constindex':
            base = self.place_ref(body, st, p[1])
            return Ref(base.root, base.path + (('s', p[2]),))
        raise Unsupported('place_ref %r' % (p,))

    def _place_ref_full(self, body, st, p):
        """like place_ref but supports (P as V).i"""
        if p[0] == 'field' and p[1][0] == 'downcast':
            base = self._place_ref_full(body, st, p[1][1])
            en = self.read_ref(st, base)
            if isinstance(en, Ref):
                base = en
                en = self.read_ref(st, base)
            vi = en.ty.vindex(p[1][2])
            return Ref(base.root, base.path + (('v', vi, p[2]),))
        if p[0] == 'field':
            bt = self.place_type(body, p[1])
            base = self._place_ref_full(body, st, p[1])
            if WRAPPER_RE.match(bt):
                return base
            return Ref(base.root, base.path + (('f', p[2]),))
        if p[0] == 'deref':
            inner = self.read_place(body, st, p[1])
            if isinstance(inner, Ref):
                return inner
            return self._place_ref_full(body, st, p[1])
        return self.place_ref(body, st, p)

    def read_place(self, body, st, p):
        k = p[0]
        if k == 'local':
            if p[1] not in st.env:
                # zero-sized locals (capture-less closures, fn items, unit) are never assigned in MIR
                t = body.locals.get(p[1], '')
                mm = re.match(r'^\{closure@([^}]*)\}$', t)
                if mm:
                    return Clo(mm.group(1), [])
                if t == '()':
                    return UNITV
                if t.startswith('fn(') or t.startswith('for<'):
                    return Opq('fn ' + (re.search(r'\{(.+)\}$', t).group(1) if re.search(r'\{(.+)\}$', t) else t))
                raise Unsupported('read of unset local %s in %s' % (p[1], body.name))
            return st.env[p[1]]
        if k == 'deref':
            v = self.read_place(body, st, p[1])
            if isinstance(v, Ref):
                return self.read_ref(st, v)
            return v
        if k == 'field':
            base = self.read_place(body, st, p[1])
            if isinstance(base, Down):
                return payload(base.en, base.idx)[p[2]]
            bt = self.place_type(body, p[1])
            if WRAPPER_RE.match(bt):
                return base
            if isinstance(base, Ref):
                base = self.read_ref(st, base)
            if isinstance(base, St):
                if p[2] >= len(base.fs):
                    raise Unsupported('field %d of %r' % (p[2], base))
                return base.fs[p[2]]
            if isinstance(base, Clo):
                return base.caps[p[2]]
            if isinstance(base, Opq):
                return Opq(base.what + '.%d' % p[2])
            raise Unsupported('field %d of %r (%s)' % (p[2], base, bt))
        if k == 'downcast':
            base = self.read_place(body, st, p[1])
            if isinstance(base, Ref):
                base = self.read_ref(st, base)
            if not isinstance(base, En):
                raise Unsupported('downcast of %r' % (base,))
            return Down(base, base.ty.vindex(p[2]))
        if k == 'constindex':
            base = self.read_place(body, st, p[1])
            return base.slots[p[2]] if isinstance(base, Vc) else base.fs[p[2]]
        if k == 'index':
            base = self.read_place(body, st, p[1])
            idx = st.env[p[2]].t
            return self.select(base, idx, st.pc, body.name)
        raise Unsupported('read_place %r' % (p,))

    def select(self, vec, idx, pc, where):
        self.panic('index-out-of-bounds', where, AND(pc, z3.UGE(idx, vec.len)))
        r = None
        for i in range(vec.ty.cap - 1, -1, -1):
            if vec.slots[i] is None:
                continue
            r = vec.slots[i] if r is None else ite(idx == i, vec.slots[i], r)
        if r is None:
            r = default(vec.ty.elem)
        return r

    def write_place(self, body, st, p, val):
        if p[0] == 'local':
            st.env[p[1]] = val
            return
        r = self._place_ref_full(body, st, p)
        self.write_ref(st, r, lambda old: val)

    # ------------------------------------------------------------ operands / rvalues
    def const_value(self, body, text, st):
        m = re.match(r'^(-?\d+)_(\w+)$', text)
        if m:
            t = INTS[m.group(2)]
            return Sc(bv(int(m.group(1)), t.w))
        if text == 'true':
            return Sc(z3.BoolVal(True))
        if text == 'false':
            return Sc(z3.BoolVal(False))
        if text in self.consts:
            v, tn = self.consts[text]
            return Sc(bv(v, INTS[tn].w))
        m = re.match(r'^(?:core|std)::num::<impl (\w+)>::(MAX|MIN|BITS)$', text) or re.match(r'^(\w+)::(MAX|MIN|BITS)$', text)
        if m and m.group(1) in INTS:
            t = INTS[m.group(1)]
            if m.group(2) == 'BITS':
                return Sc(bv(t.w, 32))
            if m.group(2) == 'MAX':
                return Sc(bv((1 << (t.w - 1)) - 1 if t.signed else (1 << t.w) - 1, t.w))
            return Sc(bv(-(1 << (t.w - 1)) if t.signed else 0, t.w))
        m = re.match(r'^ZeroSized: (.*)$', text, re.S)
        if m:
            t = m.group(1).strip()
            mm = re.match(r'^\{closure@([^}]*)\}$', t)
            if mm:
                return Clo(mm.group(1), [])
            return Opq(t)
        m = re.match(r"^'(.)'$", text)
        if m:
            return Sc(bv(ord(m.group(1)), 32))
        m = re.match(r'^(.*)::promoted\[(\d+)\]$', text)
        if m:
            for cand in (body.name + '::promoted[%s]' % m.group(2),):
                bl = self.bodies.get(cand)
                if bl:
                    return self.run_body(bl[0], [], st.pc)[0]
            raise Unsupported('promoted ' + text)
        if text.startswith('"'):
            return self.str_literal(text)
        m = re.match(r'^(?:<.*>|\w+)(?:::\w+)*::(\w+)$', text, re.S)
        if m:
            # an associated / function-local named constant: its body is dumped as `const <this body>::NAME: T = { .. }`
            cands = [b for nm, bl in self.bodies.items() for b in bl if b.kind == 'const' and nm == body.name + '::' + m.group(1)]
            if len(cands) > 1:
                cands = [b for b in cands if re.search(r'(?<![\w])%s(?![\w])' % re.escape(b.ret), text)] or cands
            if len(cands) == 1:
                return self.run_body(cands[0], [], st.pc)[0]
            if len(cands) > 1:
                raise Unsupported('ambiguous constant ' + text[:80])
        return Opq('const ' + text[:40])

    def str_literal(self, text):
        # &'static str literal: its own allocation (id 255), offset 0, known length
        try:
            s = bytes(text[1:-1], 'utf-8').decode('unicode_escape')
            n = len(s.encode('utf-8'))
        except Exception:
            n = 0
        return St(STRSLICE, [Sc(bv(255, 8)), Sc(bv(0, 64)), Sc(bv(n, 64))])

    def operand(self, body, st, op):
        k = op[0]
        if k in ('copy', 'move'):
            return self.read_place(body, st, op[1])
        if k == 'const':
            return self.const_value(body, op[1], st)
        if k == 'fnitem':
            return Opq('fn ' + op[1])
        raise Unsupported('operand %r' % (op,))

    def is_signed(self, tn):
        t = INTS.get(tn)
        return bool(t and t.signed)

    def rvalue(self, body, st, rv, dest_ts):
        k = rv[0]
        if k == 'use':
            return self.operand(body, st, rv[1])
        if k == 'ref':
            if rv[1] == 'mut':
                return self._place_ref_full(body, st, rv[2])
            v = self.read_place(body, st, rv[2])
            if isinstance(v, Down):
                raise Unsupported('reference to downcast')
            return v
        if k == 'discr':
            v = self.read_place(body, st, rv[1])
            if isinstance(v, Ref):
                v = self.read_ref(st, v)
            if not isinstance(v, En):
                raise Unsupported('discriminant of %r' % (v,))
            w = self.ty(dest_ts).w
            return Sc(discr(v, w))
        if k == 'len':
            v = self.read_place(body, st, rv[1])
            return Sc(v.len)
        if k == 'binop':
            return self.binop(body, st, rv[1], rv[2], rv[3], dest_ts)
        if k == 'unop':
            a = self.operand(body, st, rv[2])
            if rv[1] == 'Not':
                return Sc(NOT(a.t) if z3.is_bool(a.t) else ~a.t)
            if rv[1] == 'Neg':
                return Sc(-a.t)
            if rv[1] == 'PtrMetadata':
                if isinstance(a, Vc):
                    return Sc(a.len)
                if isinstance(a, St) and a.ty is STRSLICE:
                    return a.fs[2]
            raise Unsupported('unop ' + rv[1])
        if k == 'cast':
            v = self.operand(body, st, rv[1])
            kind = rv[3]
            if kind == 'IntToInt':
                src = INTS.get(self.operand_type(body, rv[1]))
                dst = self.ty(rv[2])
                if src is None and isinstance(v, Sc) and not z3.is_bool(v.t):
                    src = TInt(v.t.size(), False)
                if src is None or not isinstance(dst, TInt):
                    if isinstance(v, Sc) and z3.is_bool(v.t) and isinstance(dst, TInt):
                        return Sc(z3.If(v.t, bv(1, dst.w), bv(0, dst.w)))
                    raise Unsupported('IntToInt %r' % (rv,))
                if dst.w == src.w:
                    return v
                if dst.w < src.w:
                    return Sc(z3.Extract(dst.w - 1, 0, v.t))
                return Sc(z3.SignExt(dst.w - src.w, v.t) if src.signed else z3.ZeroExt(dst.w - src.w, v.t))
            if kind in ('IntToFloat', 'FloatToInt', 'FloatToFloat'):
                # integers become IEEE 754 values exactly as `as` does (round to nearest, ties to even); the other float casts are not modelled
                fs = {'f32': z3.Float32(), 'f64': z3.Float64()}.get(rv[2].strip())
                src = INTS.get(self.operand_type(body, rv[1]))
                if kind != 'IntToFloat' or fs is None or src is None or not isinstance(v, Sc) or z3.is_bool(v.t):
                    raise Unsupported('%s cast %r' % (kind, rv,))
                if not getattr(self, 'uses_fp', False):
                    # floating-point terms leave QF_BV: from here on the feasibility solver and the discharging solvers are general ones
                    self.uses_fp = True
                    self.solver = z3.Solver()
                    self.solver.set('timeout', self.feas_timeout_ms)
                    self.n_assumed = 0
                    self.n_defs = 0
                return Sc(z3.fpSignedToFP(z3.RNE(), v.t, fs) if src.signed else z3.fpUnsignedToFP(z3.RNE(), v.t, fs))
            return v            # Transmute / PtrToPtr / PointerCoercion / PointerExposeProvenance: representation unchanged here
        if k == 'tuple':
            vals = [self.operand(body, st, o) for o in rv[1]]
            t = self.ty(dest_ts)
            if not isinstance(t, TStruct) or len(t.fields) != len(vals):
                t = TStruct('tuple', [(str(i), None) for i in range(len(vals))])
            return St(t, vals)
        if k == 'array':
            vals = [self.operand(body, st, o) for o in rv[1]]
            return St(TStruct('array%d' % len(vals), [(str(i), None) for i in range(len(vals))]), vals)
        if k == 'repeat':
            v = self.operand(body, st, rv[1])
            n = int(rv[2]) if rv[2].isdigit() else None
            if n is None:
                raise Unsupported('repeat ' + rv[2])
            return St(TStruct('array%d' % n, [(str(i), None) for i in range(n)]), [v] * n)
        if k == 'closure':
            return Clo(re.match(r'^\{closure@([^}]*)\}$', rv[1]).group(1), [self.operand(body, st, o) for _, o in rv[2]])
        if k in ('adt_tuple', 'adt_named', 'adt_unit'):
            t = self.ty(dest_ts)
            path = rv[1]
            vname = last_segment(path)
            if isinstance(t, TOpaque):
                return Opq(path)
            if k == 'adt_unit':
                if isinstance(t, TEnum):
                    return mk_variant(t, vname)
                if isinstance(t, TStruct) and not t.fields:
                    return St(t, [])
                return Opq(path)
            if k == 'adt_tuple':
                vals = [self.operand(body, st, o) for o in rv[2]]
                if isinstance(t, TEnum):
                    return mk_variant(t, vname, vals)
                return St(t, vals)
            vals = {fname: self.operand(body, st, o) for fname, o in rv[2]}
            if isinstance(t, TEnum):
                vi = t.vindex(vname)
                return mk_variant(t, vname, list(vals.values()))
            if self.rank_mode and t.name == 'Version':
                raise Unsupported('rank mode: the code builds a Version (needs concrete mode)')
            return St(t, [vals[f] for f, _ in t.fields])
        raise Unsupported('rvalue %r' % (rv,))

    def binop(self, body, st, op, a_op, b_op, dest_ts):
        a, b = self.operand(body, st, a_op), self.operand(body, st, b_op)
        if not isinstance(a, Sc) or not isinstance(b, Sc):
            raise Unsupported('binop %s on %r, %r' % (op, a, b))
        x, y = a.t, b.t
        tn = self.operand_type(body, a_op)
        if tn == '?':
            tn = self.operand_type(body, b_op)
        signed = self.is_signed(tn)
        if z3.is_bool(x):
            if op == 'Eq':
                return Sc(x == y)
            if op == 'Ne':
                return Sc(x != y)
            if op == 'BitAnd':
                return Sc(AND(x, y))
            if op == 'BitOr':
                return Sc(OR(x, y))
            if op == 'BitXor':
                return Sc(z3.Xor(x, y))
            raise Unsupported('bool binop ' + op)
        w = x.size()
        if op in ('Eq', 'Ne', 'Lt', 'Le', 'Gt', 'Ge'):
            f = {'Eq': lambda: x == y, 'Ne': lambda: x != y,
                 'Lt': lambda: (x < y) if signed else z3.ULT(x, y), 'Le': lambda: (x <= y) if signed else z3.ULE(x, y),
                 'Gt': lambda: (x > y) if signed else z3.UGT(x, y), 'Ge': lambda: (x >= y) if signed else z3.UGE(x, y)}[op]
            return Sc(f())
        if op in ('Add', 'AddUnchecked'):
            return Sc(x + y)
        if op in ('Sub', 'SubUnchecked'):
            return Sc(x - y)
        if op in ('Mul', 'MulUnchecked'):
            return Sc(x * y)
        if op == 'BitAnd':
            return Sc(x & y)
        if op == 'BitOr':
            return Sc(x | y)
        if op == 'BitXor':
            return Sc(x ^ y)
        if op in ('AddWithOverflow', 'SubWithOverflow', 'MulWithOverflow'):
            tt = TStruct('tuple', [('0', None), ('1', None)])
            if op == 'AddWithOverflow':
                r = x + y
                ov = z3.Not(z3.BVAddNoOverflow(x, y, signed)) if not signed else z3.Or(z3.Not(z3.BVAddNoOverflow(x, y, True)), z3.Not(z3.BVAddNoUnderflow(x, y)))
            elif op == 'SubWithOverflow':
                r = x - y
                ov = z3.Not(z3.BVSubNoUnderflow(x, y, signed)) if not signed else z3.Or(z3.Not(z3.BVSubNoOverflow(x, y)), z3.Not(z3.BVSubNoUnderflow(x, y, True)))
            else:
                r = x * y
                ov = z3.Or(z3.Not(z3.BVMulNoOverflow(x, y, signed)), z3.Not(z3.BVMulNoUnderflow(x, y))) if signed else z3.Not(z3.BVMulNoOverflow(x, y, False))
            return St(tt, [Sc(r), Sc(ov)])
        if op == 'Cmp':
            lt = (x < y) if signed else z3.ULT(x, y)
            return self.ordering(lt, x == y)
        if op in ('Shl', 'Shr', 'ShlUnchecked', 'ShrUnchecked') and y.size() != w:
            y = z3.ZeroExt(w - y.size(), y) if y.size() < w else z3.Extract(w - 1, 0, y)
        if op in ('Div', 'Rem', 'Shl', 'Shr', 'ShlUnchecked', 'ShrUnchecked'):
            f = {'Div': lambda: (x / y) if signed else z3.UDiv(x, y), 'Rem': lambda: z3.SRem(x, y) if signed else z3.URem(x, y),
                 'Shl': lambda: x << y, 'ShlUnchecked': lambda: x << y,
                 'Shr': lambda: (x >> y) if signed else z3.LShR(x, y), 'ShrUnchecked': lambda: (x >> y) if signed else z3.LShR(x, y)}[op]
            return Sc(f())
        raise Unsupported('binop ' + op)

    @staticmethod
    def ordering(lt, eq):
        return En(ORDERING, z3.If(lt, bv(0, 8), z3.If(eq, bv(1, 8), bv(2, 8))), [[], [], []])

    # ------------------------------------------------------------ running a body
    def new_heap(self, st, val, hint):
        name = '@h:' + re.sub(r'\W+', '_', hint)
        st.env[name] = val
        return Ref(name)

    def _key(self, body, bb, cnt):
        k = []
        for h in body.nest.get(bb, []):
            k.append(body.rpo[h])
            k.append(cnt.get(h, 0))
        k.append(body.rpo.get(bb, 1 << 30))
        return tuple(k)

    def run_body(self, body, args, pc0=None):
        """-> (merged return value, {formal: final pointee} for &mut cells).  Panics / bounds go to self.sink."""
        mir.analyse_cfg(body)
        self.encoded.add(body.name)
        pc0 = z3.BoolVal(True) if pc0 is None else pc0
        env0 = {}
        cells = []
        for a, v in zip(body.args, args):
            if isinstance(self.ty(body.locals[a]), TCell) and not isinstance(v, (Ref,)) and not isinstance(v, Clo):
                env0['@' + a] = v
                env0[a] = Ref('@' + a)
                cells.append(a)
            elif isinstance(self.ty(body.locals[a]), TCell) and isinstance(v, Clo):
                env0['@' + a] = v
                env0[a] = Ref('@' + a)
                cells.append(a)
            else:
                env0[a] = v
        if len(args) != len(body.args):
            raise Unsupported('arity %s: %d args for %d formals' % (body.name, len(args), len(body.args)))
        pending = {}
        heap = []
        cov = self.coverage.setdefault(body.name, set())

        def push(bb, env, pc, cnt):
            key = self._key(body, bb, cnt)
            full = (key, bb)
            if full in pending:
                o = pending[full]
                self.stats['merges'] += 1
                o.env = self.merge_env(pc, env, o.env)
                o.pc = OR(pc, o.pc)
            else:
                pending[full] = State(bb, env, pc, cnt)
                heapq.heappush(heap, full)
        push('bb0', env0, pc0, {})
        returns = []
        while heap:
            full = heapq.heappop(heap)
            st = pending.pop(full)
            st.pc = z3.simplify(st.pc)
            if z3.is_false(st.pc):
                continue
            self.stats['states'] += 1
            cov.add(st.bb)
            for nbb, nenv, npc in self.exec_block(body, st, returns):
                cnt = st.cnt
                if (st.bb, nbb) in body.back:
                    cnt = dict(cnt)
                    cnt[nbb] = cnt.get(nbb, 0) + 1
                    if not self.feasible(npc):
                        continue
                    if cnt[nbb] > self.max_iter:
                        self.bound_exceeded('loop %s %s' % (body.name, nbb), npc)
                        continue
                nest = body.nest.get(nbb, [])
                if len(cnt) != len(nest) or any(h not in cnt for h in nest):
                    cnt = {h: cnt.get(h, 0) for h in nest}
                push(nbb, nenv, npc, cnt)
        if not returns:
            return None, {}
        pc_all = [r[0] for r in returns]
        val = returns[-1][1]
        for pc, v, _ in reversed(returns[:-1]):
            val = ite(pc, v, val)
        outs = {}
        for a in cells:
            o = returns[-1][2].get('@' + a)
            for pc, _, env in reversed(returns[:-1]):
                o = ite(pc, env.get('@' + a), o)
            outs[a] = o
        return val, outs

    def merge_env(self, c, a, b):
        """ite(c, a, b) on environments"""
        out = {}
        for k in set(a) | set(b):
            x, y = a.get(k), b.get(k)
            if x is y:
                out[k] = x
            else:
                try:
                    out[k] = ite(c, x, y)
                except (TypeError, Unsupported):
                    out[k] = None if k.startswith('_') else x     # dead temporaries of different shapes
        return out

    def exec_block(self, body, st, returns):
        """executes one basic block; returns successor (bb, env, pc) list"""
        self.stats['blocks'] += 1
        blk = body.blocks[st.bb]
        env = st.env
        for s in blk.stmts:
            if s[0] == 'assign':
                dest_ts = self.place_type(body, s[1])
                val = self.rvalue(body, st, s[2], dest_ts)
                if isinstance(val, Down):
                    raise Unsupported('bare downcast value')
                self.write_place(body, st, s[1], val)
            elif s[0] == 'setdiscr':
                r = self._place_ref_full(body, st, s[1])
                self.write_ref(st, r, lambda old: En(old.ty, bv(s[2], 8), old.vs))
            elif s[0] == 'bad':
                raise Unsupported('unparsed MIR statement in %s: %s (%s)' % (body.name, s[1][:120], s[2]))
            else:
                raise Unsupported('statement %r' % (s[0],))
        t = blk.term
        if t is None:
            raise Unsupported('block without terminator %s %s' % (body.name, st.bb))
        k = t[0]
        if k == 'goto':
            return [(t[1], env, st.pc)]
        if k == 'return':
            returns.append((st.pc, env.get('_0', UNITV), env))
            return []
        if k in ('unreachable', 'resume'):
            return []
        if k == 'drop':
            return [(t[2]['return'], env, st.pc)]
        if k == 'assert':
            c = self.operand(body, st, t[1]).t
            ok = c if t[2] else NOT(c)
            kind = 'overflow' if 'overflow' in t[3] else ('index-out-of-bounds' if 'index' in t[3] else 'assert')
            self.panic(kind, '%s %s: %s' % (body.name, st.bb, t[3][:60]), AND(st.pc, NOT(ok)))
            return [(t[4]['success'], env, AND(st.pc, ok))]
        if k == 'switch':
            v = self.operand(body, st, t[1])
            if not isinstance(v, Sc):
                raise Unsupported('switch on %r' % (v,))
            x = v.t
            out, seen = [], []
            for val, b in t[2]:
                if z3.is_bool(x):
                    c = x if val != 0 else NOT(x)
                else:
                    c = x == bv(val, x.size())
                c = z3.simplify(c)
                seen.append(c)
                if z3.is_false(c):
                    continue
                out.append((c, b))
            if t[3]:
                c = z3.simplify(AND(*[NOT(c) for c in seen]))
                if not z3.is_false(c):
                    out.append((c, t[3]))
            res = []
            multi = len(out) > 1
            for c, b in out:
                npc = AND(st.pc, c)
                if multi and not z3.is_true(c):
                    tb = body.blocks.get(b)
                    if tb is not None and tb.term and tb.term[0] == 'unreachable' and not tb.stmts:
                        continue
                    if not self.feasible(npc):
                        continue
                res.append((b, dict(env) if multi else env, npc))
            return res
        if k == 'call':
            return self.exec_call(body, st, t)
        raise Unsupported('terminator ' + k)

    # ------------------------------------------------------------ calls
    PANIC_RE = re.compile(r'^(?:core::panicking::|std::rt::|core::panicking|std::panicking::)?(panic_fmt|panic|panic_const\w*|panic_nounwind\w*|unreachable_display|unwrap_failed|expect_failed|panic_bounds_check|panic_explicit|panic_display|assert_failed(?:::<.*>)?|begin_panic(?:::<.*>)?)$')
    FMT_RE = re.compile(r'^(?:core::fmt::|std::fmt::|Arguments::|Formatter::|core::fmt::rt::|alloc::fmt::|format$|must_use::|<.* as thiserror::)')

    def exec_call(self, body, st, t):
        _, dest, callee, arg_ops, targets = t
        self.stats['calls'] += 1
        where = '%s %s' % (body.name, st.bb)
        cn = callee.strip()
        if self.PANIC_RE.match(cn):
            self.panic('panic', where + ': ' + cn, st.pc)
            return []
        if self.FMT_RE.match(cn) and not any(rx.match(cn) for rx, _ in self.stubs):
            if 'return' not in targets:
                return []
            self.write_place(body, st, dest, Opq('fmt'))
            return [(targets['return'], st.env, st.pc)]
        args = [self.operand(body, st, o) for o in arg_ops]
        dest_ts = self.place_type(body, dest)
        try:
            val = self.dispatch(cn, args, dest_ts, st, where, body)
        except BoundExceeded as e:
            self.bound_exceeded(where + ': ' + str(e), st.pc)
            return []
        if val is DIVERGE:
            return []
        if 'return' not in targets:
            # a call that cannot return (type `!`) and was not recognised as a panic entry point
            self.panic('panic', where + ': diverging call ' + cn[:60], st.pc)
            return []
        self.write_place(body, st, dest, val)
        return [(targets['return'], st.env, st.pc)]

    def dispatch(self, cn, args, dest_ts, st, where, body=None):
        for rx, h in self.stubs:
            if rx.match(cn):
                self.used_stubs.add(rx.pattern)
                return h(self, cn, args, dest_ts, st, where)
        if self.FMT_RE.match(cn):
            return Opq('fmt')
        for name, rx, h in self.models:
            m = rx.match(cn)
            if m:
                r = h(self, m, args, dest_ts, st, where)
                if r is not NotImplemented:
                    self.used_models.add(name)
                    return r
        target = self.resolve(cn)
        if target is not None:
            return self.call_body(target, args, st, where)
        raise Unsupported('call to %s in %s' % (cn[:200], where))

    def call_closure(self, clo, args, st, where):
        """call the MIR body of a closure value with explicit arguments (self is passed as first formal)"""
        b = self.closure_body(clo.span)
        return self.call_body(b, [clo] + list(args), st, where)

    def call_callable(self, f, args, st, where):
        """closure value or function item used as a callback by a std model"""
        if isinstance(f, Clo):
            r = self.call_closure(f, args, st, where)
            return NoValue() if r is DIVERGE else r
        if isinstance(f, Opq) and f.what.startswith('fn '):
            path = f.what[3:].strip()
            b = self.resolve(path)
            if b is not None:
                r = self.call_body(b, list(args), st, where)
                return NoValue() if r is DIVERGE else r
            # tuple-struct / enum-variant constructors used as functions
            raise Unsupported('function item ' + path)
        raise Unsupported('callable %r' % (f,))

    def needs_inline(self, target, args):
        mir.analyse_cfg(target)
        if target.has_loops or self.inline_all or target.name in self.always_inline:
            return True
        if getattr(target, 'iter_calls', None) is None:
            # iterator chains are loops in disguise: summarising them on fresh (symbolic-length) vectors is what must be avoided
            target.iter_calls = any(blk.term is not None and blk.term[0] == 'call' and re.search(r' as (?:Iterator|Extend<.*>)>::|::(?:retain|extend|splice|drain)(?:::<|$)', blk.term[2])
                                    for blk in target.blocks.values() if not blk.cleanup)
        if target.iter_calls:
            return True
        for a in args:
            if isinstance(a, (Ref, It)):
                return True
            if isinstance(a, Clo) and a.caps:
                return True
        return False

    def call_body(self, target, args, st, where):
        if id(target) in self.overrides:
            return self.overrides[id(target)](self, args, st.pc)
        if self.needs_inline(target, args):
            return self.inline(target, args, st, where)
        sm = self.summary(target)
        return self.instantiate(sm, args, st, where)

    def inline(self, target, args, st, where):
        self.stats['inlined'] += 1
        ins = []
        for a in args:
            ins.append(self.read_ref(st, a) if isinstance(a, Ref) else a)
        # `&mut` formals get the pointee (copy-in); written back below (copy-out)
        val, outs = self.run_body(target, ins, st.pc)
        if target.name in self.watch:
            self.watch_log.append((target.name, val))
        for formal, a in zip(target.args, args):
            if formal in outs and isinstance(a, Ref):
                new = outs[formal]
                self.write_ref(st, a, lambda old, new=new: new)
        if val is None:
            return DIVERGE
        return val

    def summary(self, target):
        key = id(target)
        if key in self.summaries:
            return self.summaries[key]
        self.stats['summaries'] += 1
        wf = []
        formals = []
        for a in target.args:
            t = self.ty(target.locals[a])
            if isinstance(t, TOpaque) or (isinstance(t, TCell) and isinstance(t.inner, TOpaque)):
                formals.append(Opq(target.locals[a]))
            else:
                formals.append(fresh(t, 'a' + a, wf))
        saved_assumed = list(self.assumptions)
        self.assume(wf)
        self.sinks.append(Sink())
        try:
            ret, outs = self.run_body(target, formals)
        finally:
            sink = self.sinks.pop()
            # summary-local assumptions are invariants of the value model (valid tags, len <= cap): keep them
        sm = Summary(formals, None if ret is None else simp(ret), outs, sink, wf)
        self.summaries[key] = sm
        return sm

    def instantiate(self, sm, args, st, where):
        pairs = []
        for f, a in zip(sm.formals, args):
            if isinstance(a, Ref):
                a = self.read_ref(st, a)
            pair_leaves(f, a, pairs)
        sub = substituter(pairs)
        for kind, w, c in sm.sink.panics:
            self.panic(kind, w, AND(st.pc, sub(c)))
        for w, c in sm.sink.bexc:
            self.bound_exceeded(w, AND(st.pc, sub(c)))
        if sm.ret is None:
            return DIVERGE
        ret = vmap(sub, sm.ret)
        return self.define(ret)
