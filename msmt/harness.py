"""Obligation harness: symbolic inputs under the representation invariant, oracles, model decoding, discharge."""
import json
import os
import re
import time
import z3

from . import workspace
from .engine import Engine, Unsupported, AND, OR, NOT
from .types import TVec
from .values import (Sc, St, En, Vc, Opq, bv, fresh, default, leaves, vmap, ite, mk_variant, is_variant, payload, simp)

MAXS = 900719925474099


class Top:
    """pseudo state for calls made by the harness itself"""
    def __init__(self):
        self.pc = z3.BoolVal(True)
        self.env = {}
        self.bb = 'harness'
        self.cnt = {}


class Ob:
    def __init__(self, name, hyps, goal, decode=None, replay=None, mode='concrete', kind='prove', note=''):
        self.name, self.hyps, self.goal = name, list(hyps), goal
        self.decode, self.replay, self.mode, self.kind, self.note = decode, replay, mode, kind, note


class H:
    def __init__(self, L=1, cap_bs=4, rank_bits=0, caps=None, ws=None, timeout_s=120, hybrid=False, field_bits=0):
        c = {'Identifier': L + 1, 'BoundSet': cap_bs}
        c.update(caps or {})
        self.L, self.cap_bs = L, cap_bs
        self.eng = workspace.load(caps=c, ws=ws)
        self.rank = rank_bits > 0
        self.hybrid = hybrid and self.rank
        self.field_bits = field_bits
        if self.rank:
            self.eng.enable_rank_mode(rank_bits)
        e = self.eng
        self.top = Top()
        self.wf = []
        self.timeout_s = timeout_s
        self.V, self.P, self.B = e.ty('Version'), e.ty('range::Predicate'), e.ty('range::Bound')
        self.BS, self.R, self.I = e.ty('range::BoundSet'), e.ty('range::Range'), e.ty('Identifier')
        self.f_vcmp = e.find('Version', 'Ord', 'cmp')
        self.f_veq = e.find('Version', 'PartialEq', 'eq')
        self.f_new = e.find('BoundSet', None, 'new')
        self.results = []
        self.solver_s = 0.0
        self.versions = []

    # ---------------------------------------------------------------- calls
    def fn(self, ty, tr, meth, sig=None):
        f = self.eng.find(ty, tr, meth, sig)
        if f is None:
            raise Unsupported('function %s %s %s not found in the MIR dump' % (ty, tr, meth))
        return f

    def call(self, f, *args, pc=None):
        st = self.top
        st.pc = z3.BoolVal(True) if pc is None else pc
        return self.eng.call_body(f, list(args), st, 'harness')

    def panics_since(self, n):
        return self.eng.sink.panics[n:]

    # ---------------------------------------------------------------- symbolic inputs
    def version(self, name, wf=None, max_pre=None, max_build=None):
        wf = self.wf if wf is None else wf
        v = fresh(self.V, name, wf)
        for i in range(3):
            wf.append(z3.ULE(v.fs[i].t, MAXS) if not self.field_bits else z3.ULT(v.fs[i].t, 1 << self.field_bits))
        # input lists are bounded by L (capacity L+1 leaves room for the one push min_version makes)
        wf.append(z3.ULE(v.fs[3].len, self.L if max_build is None else max_build))
        wf.append(z3.ULE(v.fs[4].len, self.L if max_pre is None else max_pre))
        self.versions.append(v)
        return v

    def predicate(self, name, wf=None):
        wf = self.wf if wf is None else wf
        tag = z3.BitVec('%s.ptag' % name, 8)
        wf.append(z3.ULT(tag, 3))
        v = self.version(name + '.v', wf)
        return En(self.P, tag, [[v], [v], []])

    def boundset(self, name, wf=None):
        """arbitrary interval accepted by the crate's own constructor (RI)"""
        wf = self.wf if wf is None else wf
        lo, hi = self.predicate(name + '.lo', wf), self.predicate(name + '.hi', wf)
        r = self.call(self.f_new, mk_variant(self.B, 'Lower', [lo]), mk_variant(self.B, 'Upper', [hi]))
        wf.append(is_variant(r, 'Some'))
        bs = payload(r, 'Some')[0]
        bs_in = St(self.BS, [mk_variant(self.B, 'Upper', [hi]), mk_variant(self.B, 'Lower', [lo])])
        return bs, bs_in

    def range_(self, name, k, wf=None, allow_any=False):
        wf = self.wf if wf is None else wf
        bss = []
        for i in range(k):
            bs, _ = self.boundset('%s%d' % (name, i), wf)
            bss.append(bs)
            if not (allow_any and k == 1):
                lo, hi = self.lower_pred(bs), self.upper_pred(bs)
                wf.append(NOT(AND(lo.tag == 2, hi.tag == 2)))
        vt = self.R.fields[0][1]
        if k > vt.cap:
            raise Unsupported('range of %d alternatives exceeds capacity %d' % (k, vt.cap))
        return St(self.R, [Vc(vt, bv(k, 64), bss + [None] * (vt.cap - k), k)]), bss

    @staticmethod
    def lower_pred(bs):
        return payload(bs.fs[1], 'Lower')[0]

    @staticmethod
    def upper_pred(bs):
        return payload(bs.fs[0], 'Upper')[0]

    # ---------------------------------------------------------------- order / membership oracles (O-within, O-sat)
    def cmp(self, a, b):
        return self.call(self.f_vcmp, a, b)

    def lt(self, a, b):
        return self.cmp(a, b).tag == 0

    def le(self, a, b):
        return self.cmp(a, b).tag != 2

    def veq(self, a, b):
        return self.cmp(a, b).tag == 1

    def within(self, bs, v):
        lo, hi = self.lower_pred(bs), self.upper_pred(bs)
        lv, hv = payload(lo, 0)[0], payload(hi, 0)[0]
        # payloads of Excluding / Including hold the same version in inputs built by predicate(); results of the
        # code may differ per variant, so select by tag
        lo_ok = z3.If(lo.tag == 2, z3.BoolVal(True), z3.If(lo.tag == 1, self.le(payload(lo, 1)[0], v), self.lt(payload(lo, 0)[0], v)))
        hi_ok = z3.If(hi.tag == 2, z3.BoolVal(True), z3.If(hi.tag == 1, self.le(v, payload(hi, 1)[0]), self.lt(v, payload(hi, 0)[0])))
        return AND(lo_ok, hi_ok)

    @staticmethod
    def is_pre(v):
        return v.fs[4].len != 0

    @staticmethod
    def same_tuple(a, b):
        return AND(a.fs[0].t == b.fs[0].t, a.fs[1].t == b.fs[1].t, a.fs[2].t == b.fs[2].t)

    def pred_version(self, p):
        return ite(p.tag == 1, payload(p, 1)[0], payload(p, 0)[0])

    def gate(self, bs, v):
        """some written bound of the alternative is a prerelease with v's major.minor.patch"""
        out = []
        for p in (self.lower_pred(bs), self.upper_pred(bs)):
            pv = self.pred_version(p)
            out.append(AND(p.tag != 2, self.is_pre(pv), self.same_tuple(pv, v)))
        return OR(*out)

    def sat_bs(self, bs, v):
        return AND(self.within(bs, v), OR(NOT(self.is_pre(v)), self.gate(bs, v)))

    def vec_exists(self, vec, f):
        out = []
        for i in range(vec.ty.cap):
            if vec.slots[i] is None:
                continue
            out.append(AND(z3.UGT(vec.len, i), f(vec.slots[i])))
        return OR(*out)

    def adm(self, rng, v):
        return self.vec_exists(rng.fs[0], lambda bs: self.within(bs, v))

    def sat(self, rng, v):
        return self.vec_exists(rng.fs[0], lambda bs: self.sat_bs(bs, v))

    def adm_opt(self, o, v):
        return AND(is_variant(o, 'Some'), self.adm(payload(o, 'Some')[0], v))

    def sat_opt(self, o, v):
        return AND(is_variant(o, 'Some'), self.sat(payload(o, 'Some')[0], v))

    def ri_bs(self, bs):
        """the interval is one the constructor accepts, unchanged"""
        lo, hi = bs.fs[1], bs.fs[0]
        r = self.call(self.f_new, lo, hi)
        shape = AND(lo.tag == 0, hi.tag == 1)
        return AND(shape, is_variant(r, 'Some'))

    def boundset_construction_sites(self):
        """bodies that build a `BoundSet { .. }` aggregate (RI argument, DESIGN.md 3.5 (a)): expected `new` and the derived `clone`"""
        sites = []
        for nm, bl in self.eng.bodies.items():
            for b in bl:
                for blk in b.blocks.values():
                    for st in blk.stmts:
                        if st[0] == 'assign' and st[2][0] == 'adt_named' and st[2][1].split('::')[-1] == 'BoundSet':
                            sites.append(nm)
        return sorted(set(sites))

    # ---------------------------------------------------------------- decoding models
    def ev(self, m, t):
        return m.eval(t, model_completion=True)

    def dec_ident(self, m, e):
        tag = self.ev(m, e.tag).as_long()
        if tag == 0:
            return {'n': self.ev(m, payload(e, 0)[0].t).as_long()}
        return {'tok': self.ev(m, payload(e, 1)[0].t).as_long()}

    def dec_idents(self, m, vec):
        n = self.ev(m, vec.len).as_long()
        return [self.dec_ident(m, vec.slots[i]) for i in range(min(n, vec.ty.cap)) if vec.slots[i] is not None]

    def dec_version(self, m, v):
        if self.hybrid:
            pre = self.ev(m, v.fs[4].len).as_long() != 0
            return {'major': self.ev(m, v.fs[0].t).as_long(), 'minor': self.ev(m, v.fs[1].t).as_long(), 'patch': self.ev(m, v.fs[2].t).as_long(),
                    'pre': [{'n': self.ev(m, v.fs[-1].t).as_long()}] if pre else [], 'build': [], 'rank': self.ev(m, v.fs[-1].t).as_long()}
        if self.rank:
            return {'major': self.ev(m, v.fs[-1].t).as_long(), 'minor': 0, 'patch': 0, 'pre': [], 'build': [], 'rank': True}
        return {'major': self.ev(m, v.fs[0].t).as_long(), 'minor': self.ev(m, v.fs[1].t).as_long(),
                'patch': self.ev(m, v.fs[2].t).as_long(), 'build': self.dec_idents(m, v.fs[3]), 'pre': self.dec_idents(m, v.fs[4])}

    def dec_pred(self, m, p):
        k = self.ev(m, p.tag).as_long()
        if k == 2:
            return {'k': 'U'}
        return {'k': 'E' if k == 0 else 'I', 'v': self.dec_version(m, payload(p, k)[0])}

    def dec_bs(self, m, bs):
        return {'lo': self.dec_pred(m, self.lower_pred(bs)), 'hi': self.dec_pred(m, self.upper_pred(bs))}

    def dec_range(self, m, r):
        vec = r.fs[0]
        n = self.ev(m, vec.len).as_long()
        return [self.dec_bs(m, vec.slots[i]) for i in range(min(n, vec.ty.cap)) if vec.slots[i] is not None]

    def dec_opt_range(self, m, o):
        if self.ev(m, o.tag).as_long() == 0:
            return None
        return self.dec_range(m, payload(o, 'Some')[0])

    # ---------------------------------------------------------------- discharge
    def solver(self, uf=False):
        s = z3.Solver() if (uf or getattr(self.eng, 'uses_fp', False)) else z3.SolverFor('QF_BV')
        s.set('timeout', int(self.timeout_s * 1000))
        seed = int(os.environ.get('VERIF_SEED', '0') or 0)
        try:
            s.set('random_seed', seed % (1 << 30))
        except z3.Z3Exception:
            pass
        return s

    def blocking_clause(self, model):
        """forbid this counterexample's shape: the values of all Boolean / tag-sized inputs and of the registered versions' leaves"""
        from .values import leaves as _leaves
        keep = set()
        for v in self.versions:
            for t in _leaves(v):
                if z3.is_const(t) and t.decl().kind() == z3.Z3_OP_UNINTERPRETED:
                    keep.add(t.decl().name())
        eqs = []
        for d in model.decls():
            if d.arity() != 0 or '!d' in d.name():
                continue
            c = d()
            small = z3.is_bool(c) or (z3.is_bv(c) and c.size() <= 8)
            if small or d.name() in keep:
                eqs.append(c == model[d])
        return NOT(AND(*eqs)) if eqs else None

    def check(self, hyps, goal=None, uf=False):
        """-> ('unsat'|'sat'|'unknown', model|None, seconds); asks hyps /\\ not goal (or just hyps if goal is None)"""
        s = self.solver(uf)
        for h in self.wf_common():
            s.add(h)
        for h in hyps:
            s.add(h)
        for d in self.eng.defs:
            s.add(d)
        if goal is not None:
            s.add(NOT(goal))
        t = time.time()
        r = s.check()
        dt = time.time() - t
        self.solver_s += dt
        if r == z3.sat:
            return 'sat', s.model(), dt
        if r == z3.unsat:
            return 'unsat', None, dt
        return 'unknown', None, dt

    def wf_common(self):
        """hybrid mode: consequences of SemVer precedence (C04: [[Version::cmp]] = O-order) that tie the ghost rank to
        the (major, minor, patch, has-prerelease) fields the gate reads; identifiers themselves stay abstract"""
        if not self.hybrid:
            return []
        out = []
        vs = self.versions
        for i in range(len(vs)):
            for j in range(len(vs)):
                if i == j:
                    continue
                a, b = vs[i], vs[j]
                ra, rb = a.fs[-1].t, b.fs[-1].t
                tl = OR(z3.ULT(a.fs[0].t, b.fs[0].t), AND(a.fs[0].t == b.fs[0].t, z3.ULT(a.fs[1].t, b.fs[1].t)),
                        AND(a.fs[0].t == b.fs[0].t, a.fs[1].t == b.fs[1].t, z3.ULT(a.fs[2].t, b.fs[2].t)))
                same = self.same_tuple(a, b)
                out.append(z3.Implies(tl, z3.ULT(ra, rb)))
                out.append(z3.Implies(AND(same, self.is_pre(a), NOT(self.is_pre(b))), z3.ULT(ra, rb)))
                if i < j:
                    out.append(z3.Implies(AND(same, NOT(self.is_pre(a)), NOT(self.is_pre(b))), ra == rb))
                    out.append(z3.Implies(ra == rb, AND(same, self.is_pre(a) == self.is_pre(b))))
        return out
