"""Models of the std / core items the encoded code calls (DESIGN.md 3.4).

Every model that calls back into the crate's own trait impls is a transcription of the nightly's rust-src
(pinned by hash in std_pins.json, checked by pins.py); the comments quote the transcribed source.
"""
import re
import z3
from .types import TInt, TBool, TStruct, TEnum, TVec, TOpaque, TCell, UNIT, BOOL, ORDERING, STRTOK, STRSLICE, U64, USIZE
from .values import (Sc, St, En, Vc, Opq, UNITV, bv, fresh, default, leaves, vmap, ite, mk_variant, is_variant,
                     payload, discr, simp)
from .engine import Ref, Clo, It, Unsupported, BoundExceeded, DIVERGE, AND, OR, NOT

MODELS = []


def model(name, pattern):
    rx = re.compile(pattern, re.S)

    def deco(f):
        MODELS.append((name, rx, f))
        return f
    return deco


def install(engine):
    engine.models = list(MODELS)


def deref(eng, st, a):
    return eng.read_ref(st, a) if isinstance(a, Ref) else a


def elem_name(t):
    return re.sub(r'<.*$', '', t.strip()).split('::')[-1]


def is_ord(o, name):
    return o.tag == ['Less', 'Equal', 'Greater'].index(name)


def ord_const(name):
    return mk_variant(ORDERING, name)


def bool_sc(b):
    return Sc(b)


# ---------------------------------------------------------------------------------------------- comparisons
PRIMS = ('u8', 'u16', 'u32', 'u64', 'usize', 'u128', 'i8', 'i16', 'i32', 'i64', 'isize', 'i128', 'char', 'bool', 'String', 'str')


def prim_lt_eq(tn, a, b):
    x, y = a.t, b.t
    signed = tn.startswith('i')
    if z3.is_bool(x):
        return AND(NOT(x), y), x == y
    return ((x < y) if signed else z3.ULT(x, y)), x == y


def user_partial_cmp(eng, tn, a, b, st, where):
    """T::partial_cmp for a crate type T -> (some: Bool, ordering En)"""
    f = eng.find(tn, 'PartialOrd', 'partial_cmp')
    if f is None:
        raise Unsupported('no PartialOrd::partial_cmp for ' + tn)
    r = eng.call_body(f, [a, b], st, where)
    return is_variant(r, 'Some'), payload(r, 'Some')[0]


def generic_cmp(eng, ts, a, b, st, where):
    """Ord::cmp on values of MIR type string ts -> Ordering En"""
    ts = ts.strip()
    m = re.match(r"^&(?:'\w+ )?(?:mut )?(.+)$", ts, re.S)
    if m:
        return generic_cmp(eng, m.group(1), a, b, st, where)          # impl Ord for &A: Ord::cmp(*self, *other)
    m = re.match(r'^(?:std::boxed::)?Box<(.+)>$', ts, re.S)
    if m:
        return generic_cmp(eng, m.group(1), a, b, st, where)          # impl Ord for Box<T>: Ord::cmp(&**self, &**other)
    tn = elem_name(ts)
    if tn in PRIMS:
        lt, eq = prim_lt_eq(tn, a, b)
        return eng.ordering(lt, eq)
    if ts == '[u8]' and isinstance(a, Sc) and isinstance(b, Sc) and not z3.is_bool(a.t):
        # the bytes of two ordered string tokens (String::as_bytes below): `impl Ord for str` is `self.as_bytes().cmp(other.as_bytes())`, so the byte order is the token order
        return eng.ordering(z3.ULT(a.t, b.t), a.t == b.t)
    m = re.match(r'^(?:std::vec::)?Vec<(.+)>$', ts, re.S) or re.match(r'^\[(.+)\]$', ts, re.S)
    if m:
        return slice_cmp(eng, m.group(1), a, b, st, where)
    f = eng.find(tn, 'Ord', 'cmp')
    if f is None:
        raise Unsupported('no Ord::cmp for ' + ts)
    return eng.call_body(f, [a, b], st, where)


def generic_partial(eng, ts, op, a, b, st, where):
    """PartialOrd::{lt,le,gt,ge} on values of type ts -> z3 Bool"""
    ts = ts.strip()
    m = re.match(r"^&(?:'\w+ )?(?:mut )?(.+)$", ts, re.S)
    if m:
        return generic_partial(eng, m.group(1), op, a, b, st, where)  # impl PartialOrd<&B> for &A: PartialOrd::lt(*self, *other)
    m = re.match(r'^(?:std::boxed::)?Box<(.+)>$', ts, re.S)
    if m:
        return generic_partial(eng, m.group(1), op, a, b, st, where)  # impl PartialOrd for Box<T>: PartialOrd::lt(&**self, &**other)
    tn = elem_name(ts)
    if tn in PRIMS:
        lt, eq = prim_lt_eq(tn, a, b)
        return {'lt': lt, 'le': OR(lt, eq), 'gt': NOT(OR(lt, eq)), 'ge': NOT(lt)}[op]
    own = eng.find(tn, 'PartialOrd', op)
    if own is not None:
        return eng.call_body(own, [a, b], st, where).t
    # default methods of PartialOrd (core/src/cmp.rs):
    #   fn lt(&self, other) -> bool { self.partial_cmp(other).is_some_and(Ordering::is_lt) }   (le/gt/ge alike)
    some, o = user_partial_cmp(eng, tn, a, b, st, where)
    sel = {'lt': is_ord(o, 'Less'), 'le': NOT(is_ord(o, 'Greater')), 'gt': is_ord(o, 'Greater'), 'ge': NOT(is_ord(o, 'Less'))}[op]
    return AND(some, sel)


def generic_eq(eng, ts, a, b, st, where):
    ts = ts.strip()
    m = re.match(r"^&(?:'\w+ )?(?:mut )?(.+)$", ts, re.S)
    if m:
        return generic_eq(eng, m.group(1), a, b, st, where)           # impl PartialEq<&B> for &A: PartialEq::eq(*self, *other)
    m = re.match(r'^(?:std::boxed::)?Box<(.+)>$', ts, re.S)
    if m:
        return generic_eq(eng, m.group(1), a, b, st, where)           # impl PartialEq for Box<T>: PartialEq::eq(&**self, &**other)
    tn = elem_name(ts)
    if tn in PRIMS:
        return a.t == b.t
    if tn == 'Ordering':
        return a.tag == b.tag
    m = re.match(r'^(?:std::vec::)?Vec<(.+)>$', ts, re.S) or re.match(r'^\[(.+)\]$', ts, re.S)
    if m:
        return slice_eq(eng, m.group(1), a, b, st, where)
    m = re.match(r'^(?:std::option::)?Option<(.+)>$', ts, re.S)
    if m:
        inner = generic_eq(eng, m.group(1), payload(a, 'Some')[0], payload(b, 'Some')[0], st, where)
        return z3.If(a.tag == b.tag, OR(a.tag == 0, inner), z3.BoolVal(False))
    if tn == 'SourceSpan':
        return AND(a.fs[0].t == b.fs[0].t, a.fs[1].t == b.fs[1].t)
    if tn == 'ParseIntError':
        return a.fs[0].t == b.fs[0].t
    f = eng.find(tn, 'PartialEq', 'eq')
    if f is None:
        raise Unsupported('no PartialEq::eq for ' + ts)
    return eng.call_body(f, [a, b], st, where).t


class _ArrView:
    """a fixed-size array seen as a slice (for Vec == [T; N] comparisons)"""
    def __init__(self, arr):
        self.slots = list(arr.fs)
        self.n = len(arr.fs)
        self.len = bv(self.n, 64)

        class _T:
            cap = self.n
        self.ty = _T


def _as_slice(x):
    return _ArrView(x) if isinstance(x, St) else x


def slice_eq(eng, ets, a, b, st, where):
    a, b = _as_slice(a), _as_slice(b)
    if a.ty.cap != b.ty.cap:
        n = min(a.ty.cap, b.ty.cap)
        r = a.len == b.len
        for i in range(n):
            if a.slots[i] is None or b.slots[i] is None:
                continue
            r = AND(r, OR(z3.ULE(a.len, i), generic_eq(eng, ets, a.slots[i], b.slots[i], st, where)))
        # a longer side can only be equal if its length fits the shorter capacity
        return AND(r, z3.ULE(a.len, n))
    # core/src/slice/cmp.rs SlicePartialEq::equal: `if self.len() != other.len() { return false; }` then element-wise `!=` -> false
    r = a.len == b.len
    for i in range(a.ty.cap):
        if a.slots[i] is None or b.slots[i] is None:
            continue
        e = generic_eq(eng, ets, a.slots[i], b.slots[i], st, where)
        r = AND(r, OR(z3.ULE(a.len, i), e))
    return r


def slice_cmp(eng, ets, a, b, st, where):
    # core/src/slice/cmp.rs SliceOrd::compare:
    #   let l = cmp::min(left.len(), right.len());
    #   for i in 0..l { match lhs[i].cmp(&rhs[i]) { Ordering::Equal => (), non_eq => return non_eq } }
    #   left.len().cmp(&right.len())
    res = eng.ordering(z3.ULT(a.len, b.len), a.len == b.len)
    for i in range(a.ty.cap - 1, -1, -1):
        if a.slots[i] is None or b.slots[i] is None:
            continue
        ec = generic_cmp(eng, ets, a.slots[i], b.slots[i], st, where)
        both = AND(z3.UGT(a.len, i), z3.UGT(b.len, i))
        res = ite(both, ite(is_ord(ec, 'Equal'), res, ec), res)
    return res


@model('Ord::cmp', r'^<(.+) as Ord>::cmp$')
def m_ord_cmp(eng, m, args, dest_ts, st, where):
    ts = m.group(1)
    tn = elem_name(ts)
    if not (ts.startswith('&') or ts.startswith('Box<') or ts.startswith('std::boxed::Box<') or tn in PRIMS or tn == 'Vec' or re.match(r'^\[[^;]+\]$', ts)):
        return NotImplemented
    a, b = deref(eng, st, args[0]), deref(eng, st, args[1])
    return generic_cmp(eng, ts, a, b, st, where)


@model('f32 / f64 comparisons (IEEE 754 via the FP theory of the solver)', r'^<(f32|f64) as (?:PartialOrd|PartialEq)(?:<.*>)?>::(partial_cmp|lt|le|gt|ge|eq|ne)$')
def m_float_cmp(eng, m, args, dest_ts, st, where):
    a, b = deref(eng, st, args[0]).t, deref(eng, st, args[1]).t
    if not (z3.is_fp(a) and z3.is_fp(b)):
        raise Unsupported('float comparison of non-FP terms')
    op = m.group(2)
    if op == 'partial_cmp':
        dt = eng.ty(dest_ts)
        nan = OR(z3.fpIsNaN(a), z3.fpIsNaN(b))
        return ite(nan, mk_variant(dt, 'None'), mk_variant(dt, 'Some', [eng.ordering(z3.fpLT(a, b), z3.fpEQ(a, b))]))
    return Sc({'lt': z3.fpLT, 'le': z3.fpLEQ, 'gt': z3.fpGT, 'ge': z3.fpGEQ, 'eq': z3.fpEQ, 'ne': z3.fpNEQ}[op](a, b))


@model('PartialOrd::partial_cmp (prims)', r'^<(.+) as PartialOrd>::partial_cmp$')
def m_partial_cmp(eng, m, args, dest_ts, st, where):
    ts = m.group(1)
    tn = elem_name(ts)
    if tn in PRIMS or tn == 'Vec' or ts.startswith('&') or 'Box<' in ts[:16]:
        o = generic_cmp(eng, ts, deref(eng, st, args[0]), deref(eng, st, args[1]), st, where)
        return mk_variant(eng.ty(dest_ts), 'Some', [o])
    return NotImplemented


@model('PartialOrd::{lt,le,gt,ge}', r'^<(.+) as PartialOrd(?:<.*>)?>::(lt|le|gt|ge)$')
def m_partial_ops(eng, m, args, dest_ts, st, where):
    a, b = deref(eng, st, args[0]), deref(eng, st, args[1])
    return Sc(generic_partial(eng, m.group(1), m.group(2), a, b, st, where))


@model('PartialEq::{eq,ne}', r'^<(.+) as PartialEq(?:<.*>)?>::(eq|ne)$')
def m_partial_eq(eng, m, args, dest_ts, st, where):
    ts, op = m.group(1), m.group(2)
    tn = elem_name(ts)
    a, b = deref(eng, st, args[0]), deref(eng, st, args[1])
    if op == 'ne':
        own = eng.find(tn, 'PartialEq', 'ne') if not ts.startswith('&') else None
        if own is not None:
            return eng.call_body(own, [a, b], st, where)
        return Sc(NOT(generic_eq(eng, ts, a, b, st, where)))          # fn ne(&self, other) -> bool { !self.eq(other) }
    if not (ts.startswith('&') or 'Box<' in ts[:16] or tn in PRIMS or tn in ('Vec', 'Ordering', 'Option', 'SourceSpan', 'ParseIntError')):
        return NotImplemented
    return Sc(generic_eq(eng, ts, a, b, st, where))


@model('cmp::{max,min}', r'^std::cmp::(max|min)::<(.+)>$')
def m_cmp_maxmin(eng, m, args, dest_ts, st, where):
    # core/src/cmp.rs:  pub fn max<T: Ord>(v1: T, v2: T) -> T { v1.max(v2) }   /  min: v1.min(v2)
    #   Ord::max(self, other): if other < self { self } else { other }
    #   Ord::min(self, other): if other < self { other } else { self }
    a, b = deref(eng, st, args[0]), deref(eng, st, args[1])
    lt_ba = generic_partial(eng, m.group(2), 'lt', b, a, st, where)
    return ite(lt_ba, a, b) if m.group(1) == 'max' else ite(lt_ba, b, a)


# ---------------------------------------------------------------------------------------------- Clone / Box / misc
@model('Clone::clone', r'^<(.+) as Clone>::clone$')
def m_clone(eng, m, args, dest_ts, st, where):
    ts = m.group(1)
    tn = elem_name(ts)
    f = eng.find(tn, 'Clone', 'clone') if not (ts.startswith('&') or 'Box<' in ts[:16] or tn in ('Vec', 'Option', 'String')) else None
    if f is not None and not eng.is_derive(f):
        return NotImplemented
    return deref(eng, st, args[0])           # derived / std clones are structural copies of an immutable value tree


@model('Box::new', r'^Box::<(.+)>::new$')
def m_box_new(eng, m, args, dest_ts, st, where):
    return args[0]


@model('Box::as_ref', r'^<Box<.+> as AsRef<.+>>::as_ref$')
def m_box_as_ref(eng, m, args, dest_ts, st, where):
    return deref(eng, st, args[0])


@model('Drop::drop', r'^<.+ as Drop>::drop$')
def m_drop(eng, m, args, dest_ts, st, where):
    return UNITV


@model('Deref::deref', r'^<(?:Vec<.+>|String|Box<.+>) as Deref(?:Mut)?>::deref(?:_mut)?$')
def m_deref(eng, m, args, dest_ts, st, where):
    return args[0] if isinstance(args[0], Ref) and 'mut' in m.group(0) else deref(eng, st, args[0])


@model('Box::new_uninit', r'^Box::<\[(.+); (\d+)\]>::new_uninit$')
def m_new_uninit(eng, m, args, dest_ts, st, where):
    n = int(m.group(2))
    arr = St(TStruct('array%d' % n, [(str(i), None) for i in range(n)]), [None] * n)
    return eng.new_heap(st, arr, where)


@model('box_assume_init_into_vec_unsafe', r'^std::boxed::box_assume_init_into_vec_unsafe::<(.+), (\d+)>$')
def m_box_into_vec(eng, m, args, dest_ts, st, where):
    arr = deref(eng, st, args[0])
    n = int(m.group(2))
    vty = eng.ty(dest_ts)
    if n > vty.cap:
        raise BoundExceeded('vec![..] of %d elements, capacity %d' % (n, vty.cap))
    return Vc(vty, bv(n, 64), [arr.fs[i] if i < n else None for i in range(vty.cap)], n)


@model('Default::default', r'^<\((.+)\) as Default>::default$')
def m_default(eng, m, args, dest_ts, st, where):
    return default(eng.ty(dest_ts))


# ---------------------------------------------------------------------------------------------- Vec
def vec_push(eng, v, x, pc, where):
    cap = v.ty.cap
    n = min(cap, v.n + 1)
    if v.n >= cap:
        eng.bound_exceeded(where + ': Vec::push beyond capacity %d' % cap, AND(pc, z3.UGE(v.len, cap)))
    slots = []
    for i in range(cap):
        if i >= n:
            slots.append(None)
        elif v.slots[i] is None:
            slots.append(x)
        else:
            slots.append(ite(v.len == i, x, v.slots[i]))
    ln = z3.If(z3.UGE(v.len, cap), v.len, v.len + 1) if v.n >= cap else v.len + 1
    ln = z3.simplify(ln)
    if not z3.is_bv_value(ln):
        eng.fact(z3.ULE(ln, n))
    return Vc(v.ty, ln, slots, n)


@model('Vec::new', r'^Vec::<(.+)>::new$')
def m_vec_new(eng, m, args, dest_ts, st, where):
    return default(eng.ty(dest_ts))


@model('Vec::len', r'^(?:Vec::<.+>|core::slice::<impl \[.+\]>)::(len|is_empty)$')
def m_vec_len(eng, m, args, dest_ts, st, where):
    v = deref(eng, st, args[0])
    return Sc(v.len) if m.group(1) == 'len' else Sc(v.len == 0)


@model('Vec::push', r'^Vec::<(.+)>::push$')
def m_vec_push(eng, m, args, dest_ts, st, where):
    r = args[0]
    v = eng.read_ref(st, r)
    eng.write_ref(st, r, lambda old: vec_push(eng, v, args[1], st.pc, where))
    return UNITV


@model('Vec::pop', r'^Vec::<(.+)>::pop$')
def m_vec_pop(eng, m, args, dest_ts, st, where):
    r = args[0]
    v = eng.read_ref(st, r)
    oty = eng.ty(dest_ts)
    val = None
    for i in range(v.ty.cap - 1, -1, -1):
        if v.slots[i] is None:
            continue
        val = v.slots[i] if val is None else ite(v.len == i + 1, v.slots[i], val)
    if val is None:
        res = mk_variant(oty, 'None')
    else:
        res = ite(v.len == 0, mk_variant(oty, 'None'), mk_variant(oty, 'Some', [val]))
    eng.write_ref(st, r, lambda old: Vc(v.ty, z3.simplify(z3.If(v.len == 0, v.len, v.len - 1)), v.slots, v.n))
    return res


@model('Vec::append', r'^Vec::<(.+)>::append$')
def m_vec_append(eng, m, args, dest_ts, st, where):
    ra, rb = args[0], args[1]
    a, b = eng.read_ref(st, ra), eng.read_ref(st, rb)
    cap = a.ty.cap
    n = min(cap, a.n + b.n)
    if a.n + b.n > cap:
        eng.bound_exceeded(where + ': Vec::append beyond capacity %d' % cap, AND(st.pc, z3.UGT(a.len + b.len, cap)))
    new = []
    for i in range(cap):
        if i >= n:
            new.append(None)
            continue
        val = a.slots[i] if i < a.n else None
        for j in range(min(i + 1, b.n)):
            if b.slots[j] is None or i - j > a.n:
                continue
            c = AND(a.len == i - j, z3.UGT(b.len, j))
            val = b.slots[j] if val is None else ite(c, b.slots[j], val)
        new.append(val)
    tot = z3.simplify(a.len + b.len)
    ln = z3.If(z3.UGT(tot, cap), bv(cap, 64), tot) if a.n + b.n > cap else tot
    if not z3.is_bv_value(ln):
        eng.fact(z3.ULE(ln, n))
    eng.write_ref(st, ra, lambda old: Vc(a.ty, ln, new, n))
    eng.write_ref(st, rb, lambda old: Vc(b.ty, bv(0, 64), [None] * b.ty.cap, 0))
    return UNITV


# ---------------------------------------------------------------------------------------------- iterators
@model('Option::into_iter / iter', r'^<Option<.+> as IntoIterator>::into_iter$|^<&Option<.+> as IntoIterator>::into_iter$|^Option::<.+>::iter$')
def m_option_iter(eng, m, args, dest_ts, st, where):
    v = deref(eng, st, args[0])                # an iterator over zero or one element
    some = is_variant(v, 'Some')
    x = payload(v, 'Some')[0] if not z3.is_false(z3.simplify(some)) else None
    if x is None:
        return It('src', Vc(TVec(None, 1), bv(0, 64), [None], 0), bv(0, 64))
    return It('src', Vc(TVec(None, 1), z3.If(some, bv(1, 64), bv(0, 64)), [x], 1), bv(0, 64))


@model('iter', r'^(?:<&(?:mut )?Vec<.+> as IntoIterator>::into_iter|<Vec<.+> as IntoIterator>::into_iter|core::slice::<impl \[.+\]>::iter(?:_mut)?|<std::slice::Iter<.+> as IntoIterator>::into_iter|<&(?:mut )?\[.+\] as IntoIterator>::into_iter|<\[.+; \d+\] as IntoIterator>::into_iter|<std::array::IntoIter<.+> as IntoIterator>::into_iter|Vec::<.+>::iter(?:_mut)?|Vec::<.+>::into_iter)$')
def m_iter(eng, m, args, dest_ts, st, where):
    v = deref(eng, st, args[0])
    if isinstance(v, It):
        return v
    if isinstance(v, St):                      # [T; N] by value: a slice of exactly N elements
        n = len(v.fs)
        return It('src', Vc(TVec(None, n), bv(n, 64), list(v.fs), n), bv(0, 64))
    return It('src', v, bv(0, 64))


@model('Iterator adaptors', r'^<.+ as Iterator>::(map|filter|flatten|filter_map|flat_map|enumerate|take|skip|chain)(?:::<.*>)?$')
def m_adapt(eng, m, args, dest_ts, st, where):
    it = deref(eng, st, args[0])
    k = m.group(1)
    if k in ('flatten', 'enumerate'):
        return It(k, it, None)
    if k == 'chain':
        other = deref(eng, st, args[1])
        return It('chain', it, other if isinstance(other, It) else It('src', other, bv(0, 64)))
    return It(k, it, args[1])


def it_elems(eng, it, st, where, pc):
    """[(guard, value)] of the remaining elements, in order; closures are run through their MIR"""
    if it.kind == 'chain':
        return it_elems(eng, it.a, st, where, pc) + it_elems(eng, it.b, st, where, pc)
    if it.kind == 'counted':
        out, cnt = [], bv(0, 64)
        for g, x in it_elems(eng, it.a, st, where, pc):
            out.append((AND(g, z3.UGE(cnt, it.b.t)), x))
            cnt = z3.simplify(cnt + z3.If(g, bv(1, 64), bv(0, 64)))
        return out
    if it.kind == 'src':
        v = it.a
        out = []
        for i in range(v.ty.cap):
            if v.slots[i] is None:
                continue
            out.append((AND(z3.ULE(it.b, i), z3.UGT(v.len, i)), v.slots[i]))
        return out
    inner = it_elems(eng, it.a, st, where, pc)
    out = []
    if it.kind == 'map':
        for g, x in inner:
            st2 = _sub_state(st, AND(pc, g))
            out.append((g, eng.call_callable(it.b, [x], st2, where)))
        return out
    if it.kind == 'filter_map':
        for g, x in inner:
            st2 = _sub_state(st, AND(pc, g))
            r = eng.call_callable(it.b, [x], st2, where)
            out.append((AND(g, is_variant(r, 'Some')), payload(r, 'Some')[0]))
        return out
    if it.kind == 'filter':
        for g, x in inner:
            st2 = _sub_state(st, AND(pc, g))
            keep = eng.call_callable(it.b, [x], st2, where)
            out.append((AND(g, keep.t), x))
        return out
    if it.kind in ('flatten', 'flat_map'):
        for g, x in inner:
            if it.kind == 'flat_map':
                st2 = _sub_state(st, AND(pc, g))
                x = eng.call_callable(it.b, [x], st2, where)
            if isinstance(x, En):              # Option<T> items
                out.append((AND(g, is_variant(x, 'Some')), payload(x, 'Some')[0]))
            elif isinstance(x, Vc):
                for j in range(x.n):
                    if x.slots[j] is None:
                        continue
                    out.append((AND(g, z3.UGT(x.len, j)), x.slots[j]))
            elif isinstance(x, It):
                for g2, y in it_elems(eng, x, st, where, AND(pc, g)):
                    out.append((AND(g, g2), y))
            elif x is None or type(x).__name__ == 'NoValue':
                continue
            else:
                raise Unsupported('flatten over %r' % (x,))
        return out
    if it.kind == 'enumerate':
        cnt = bv(0, 64)
        tt = TStruct('tuple', [('0', None), ('1', None)])
        for g, x in inner:
            out.append((g, St(tt, [Sc(cnt), x])))
            cnt = z3.simplify(cnt + z3.If(g, bv(1, 64), bv(0, 64)))
        return out
    if it.kind in ('take', 'skip'):
        cnt = bv(0, 64)
        n = it.b.t
        for g, x in inner:
            out.append((AND(g, z3.ULT(cnt, n) if it.kind == 'take' else z3.UGE(cnt, n)), x))
            cnt = z3.simplify(cnt + z3.If(g, bv(1, 64), bv(0, 64)))
        return out
    raise Unsupported('iterator kind ' + it.kind)


class _SubState:
    __slots__ = ('bb', 'env', 'pc', 'cnt')


def _sub_state(st, pc):
    s = _SubState()
    s.bb, s.env, s.pc, s.cnt = st.bb, st.env, pc, st.cnt
    return s


def it_src(it):
    while it.kind != 'src':
        it = it.a
    return it


def it_with_src(it, src):
    if it.kind == 'src':
        return src
    return It(it.kind, it_with_src(it.a, src), it.b)


def it_elems_slots(eng, it, st, where, pc):
    """like it_elems for chains in which every produced element stems from exactly one source slot: [(guard, value, slot)]"""
    if it.kind == 'src':
        v = it.a
        return [(AND(z3.ULE(it.b, i), z3.UGT(v.len, i)), v.slots[i], i) for i in range(v.ty.cap) if v.slots[i] is not None]
    inner = it_elems_slots(eng, it.a, st, where, pc)
    out = []
    for g, x, i in inner:
        st2 = _sub_state(st, AND(pc, g))
        if it.kind == 'map':
            out.append((g, eng.call_callable(it.b, [x], st2, where), i))
        elif it.kind == 'filter':
            out.append((AND(g, eng.call_callable(it.b, [x], st2, where).t), x, i))
        elif it.kind == 'filter_map':
            r = eng.call_callable(it.b, [x], st2, where)
            out.append((AND(g, is_variant(r, 'Some')), payload(r, 'Some')[0], i))
        elif it.kind == 'flatten' and isinstance(x, En):
            out.append((AND(g, is_variant(x, 'Some')), payload(x, 'Some')[0], i))
        else:
            raise Unsupported('next() through %s over %r' % (it.kind, x))
    return out


@model('Iterator::next', r'^<(?:std::str::Bytes<.+>|std::slice::Iter<.+>|std::vec::IntoIter<.+>|std::array::IntoIter<.+>|Zip<.+>|std::iter::Zip<.+>|Flatten<.+>|FlatMap<.+>|Filter<.+>|std::iter::Map<.+>|FilterMap<.+>|std::iter::Flatten<.+>|std::iter::Filter<.+>|std::iter::FlatMap<.+>) as Iterator>::next$')
def m_iter_next(eng, m, args, dest_ts, st, where):
    r = args[0]
    it = eng.read_ref(st, r)
    oty = eng.ty(dest_ts)
    if it.kind == 'src':
        v, idx = it.a, it.b
        has = z3.ULT(idx, v.len)
        elem = None
        for i in range(v.ty.cap - 1, -1, -1):
            if v.slots[i] is None:
                continue
            elem = v.slots[i] if elem is None else ite(idx == i, v.slots[i], elem)
        if elem is None:
            res = mk_variant(oty, 'None')
        else:
            res = ite(has, mk_variant(oty, 'Some', [elem]), mk_variant(oty, 'None'))
        eng.write_ref(st, r, lambda old: It('src', v, z3.simplify(z3.If(has, idx + 1, idx))))
        return simp(res)
    if it.kind == 'counted':
        return _next_counted(eng, r, it, oty, st, where)
    # adaptor chain: the first enabled element; the source cursor moves just past the slot it came from
    try:
        src = it_src(it)
        elems = it_elems_slots(eng, it, st, where, st.pc)
    except Unsupported:
        return _next_counted(eng, r, It('counted', it, Sc(bv(0, 64))), oty, st, where)
    res = mk_variant(oty, 'None')
    newidx = src.a.len                                  # exhausted: cursor at the end
    taken = z3.BoolVal(False)
    for g, x, i in reversed(elems):
        res = ite(g, mk_variant(oty, 'Some', [x]), res)
        newidx = z3.If(g, bv(i + 1, 64), newidx)
    eng.write_ref(st, r, lambda old: it_with_src(it, It('src', src.a, z3.simplify(newidx))))
    return simp(res)


def _next_counted(eng, r, it, oty, st, where):
    """general cursor: the iterator is (chain, number of elements already yielded); next() yields the element of the chain whose
    ordinal among the enabled elements equals that number"""
    chain, skip = it.a, it.b.t
    elems = it_elems(eng, chain, st, where, st.pc)
    res = mk_variant(oty, 'None')
    found = z3.BoolVal(False)
    cnt = bv(0, 64)
    picks = []
    for g, x in elems:
        g = z3.simplify(g)
        if z3.is_false(g):
            continue
        picks.append((AND(g, cnt == skip), x))
        cnt = z3.simplify(cnt + z3.If(g, bv(1, 64), bv(0, 64)))
    for c, x in reversed(picks):
        res = ite(c, mk_variant(oty, 'Some', [x]), res)
        found = OR(found, c)
    eng.write_ref(st, r, lambda old: It('counted', chain, Sc(z3.simplify(z3.If(found, skip + 1, skip)))))
    return simp(res)


@model('IntoIterator for iterators', r'^<(?:std::str::Bytes<.+>|Flatten<.+>|FlatMap<.+>|Filter<.+>|std::iter::Map<.+>|FilterMap<.+>|std::vec::IntoIter<.+>|std::iter::\w+<.+>|Zip<.+>|Enumerate<.+>|Chain<.+>|Take<.+>|Skip<.+>|Rev<.+>) as IntoIterator>::into_iter$')
def m_iter_identity(eng, m, args, dest_ts, st, where):
    return deref(eng, st, args[0])


@model('Iterator::fold', r'^<.+ as Iterator>::fold::<.*>$')
def m_fold(eng, m, args, dest_ts, st, where):
    it, acc, clo = deref(eng, st, args[0]), args[1], args[2]
    for g, x in it_elems(eng, it, st, where, st.pc):
        g = z3.simplify(g)
        if z3.is_false(g):
            continue
        st2 = _sub_state(st, AND(st.pc, g))
        new = eng.call_closure(clo, [acc, x], st2, where)
        acc = ite(g, new, acc)
    return acc


@model('Iterator::collect', r'^<.+ as Iterator>::collect::<Vec<.+>>$')
def m_collect(eng, m, args, dest_ts, st, where):
    it = deref(eng, st, args[0])
    vty = eng.ty(dest_ts)
    v = default(vty)
    for g, x in it_elems(eng, it, st, where, st.pc):
        g = z3.simplify(g)
        if z3.is_false(g):
            continue
        v = ite(g, vec_push(eng, v, x, AND(st.pc, g), where), v)
    return v


@model('Iterator::{max,min}', r'^<(.+) as Iterator>::(max|min)$')
def m_iter_maxmin(eng, m, args, dest_ts, st, where):
    # core/src/iter/traits/iterator.rs:  max(self) = self.max_by(Ord::cmp); max_by = self.reduce(|x, y| cmp::max_by(x, y, compare))
    #   reduce: let first = self.next()?; Some(self.fold(first, f))
    #   cmp::max_by(v1, v2, compare): if compare(&v1, &v2).is_gt() { v1 } else { v2 }
    #   cmp::min_by(v1, v2, compare): if compare(&v1, &v2).is_le() { v1 } else { v2 }
    it = deref(eng, st, args[0])
    oty = eng.ty(dest_ts)
    item_ts = re.match(r'^(?:std::option::)?Option<(.+)>$', dest_ts.strip(), re.S).group(1)
    have, acc = z3.BoolVal(False), None
    for g, x in it_elems(eng, it, st, where, st.pc):
        g = z3.simplify(g)
        if z3.is_false(g):
            continue
        if acc is None:
            have, acc = g, x
            continue
        st2 = _sub_state(st, AND(st.pc, g, have))
        c = generic_cmp(eng, item_ts, acc, x, st2, where)
        if m.group(2) == 'max':
            keep = is_ord(c, 'Greater')
        else:
            keep = NOT(is_ord(c, 'Greater'))
        nxt = ite(keep, acc, x)
        acc = ite(g, ite(have, nxt, x), acc)
        have = OR(have, g)
    if acc is None:
        return mk_variant(oty, 'None')
    return ite(have, mk_variant(oty, 'Some', [acc]), mk_variant(oty, 'None'))


# ---------------------------------------------------------------------------------------------- Option / Result
@model('Option::unwrap', r'^Option::<(.+)>::(unwrap|expect)$')
def m_unwrap(eng, m, args, dest_ts, st, where):
    o = deref(eng, st, args[0])
    eng.panic('unwrap-none', where, AND(st.pc, is_variant(o, 'None')))
    return payload(o, 'Some')[0]


@model('Option::unwrap_or', r'^Option::<(.+)>::unwrap_or$')
def m_unwrap_or(eng, m, args, dest_ts, st, where):
    o = deref(eng, st, args[0])
    return ite(is_variant(o, 'Some'), payload(o, 'Some')[0], args[1])


@model('Option::is_some', r'^Option::<(.+)>::(is_some|is_none)$')
def m_is_some(eng, m, args, dest_ts, st, where):
    o = deref(eng, st, args[0])
    return Sc(is_variant(o, 'Some' if m.group(2) == 'is_some' else 'None'))


@model('Option::flatten', r'^Option::<Option<(.+)>>::flatten$')
def m_opt_flatten(eng, m, args, dest_ts, st, where):
    o = deref(eng, st, args[0])
    oty = eng.ty(dest_ts)
    inner = payload(o, 'Some')[0]
    return ite(is_variant(o, 'Some'), inner, mk_variant(oty, 'None'))


@model('Option::map', r'^Option::<(.+)>::map::<.*>$')
def m_opt_map(eng, m, args, dest_ts, st, where):
    o, clo = deref(eng, st, args[0]), args[1]
    oty = eng.ty(dest_ts)
    some = is_variant(o, 'Some')
    st2 = _sub_state(st, AND(st.pc, some))
    r = eng.call_callable(clo, [payload(o, 'Some')[0]], st2, where)
    return ite(some, mk_variant(oty, 'Some', [r]), mk_variant(oty, 'None'))


@model('Try::branch', r'^<Result<(.+)> as Try>::branch$')
def m_try_branch(eng, m, args, dest_ts, st, where):
    # impl Try for Result<T, E>: Ok(v) => ControlFlow::Continue(v), Err(e) => ControlFlow::Break(Err(e))
    r = deref(eng, st, args[0])
    cty = eng.ty(dest_ts)
    resid_ty = cty.variants[cty.vindex('Break')][1][0]
    brk = mk_variant(cty, 'Break', [mk_variant(resid_ty, 'Err', [payload(r, 'Err')[0]])])
    cont = mk_variant(cty, 'Continue', [payload(r, 'Ok')[0]])
    return ite(is_variant(r, 'Ok'), cont, brk)


@model('Try::branch (Option)', r'^<(?:std::option::)?Option<(.+)> as Try>::branch$')
def m_try_branch_opt(eng, m, args, dest_ts, st, where):
    # impl Try for Option<T>: Some(v) => ControlFlow::Continue(v), None => ControlFlow::Break(None)
    r = deref(eng, st, args[0])
    cty = eng.ty(dest_ts)
    resid_ty = cty.variants[cty.vindex('Break')][1][0]
    brk = mk_variant(cty, 'Break', [mk_variant(resid_ty, 'None')])
    cont = mk_variant(cty, 'Continue', [payload(r, 'Some')[0]])
    return ite(is_variant(r, 'Some'), cont, brk)


@model('FromResidual::from_residual (Option)', r'^<(?:std::option::)?Option<(.+)> as FromResidual<(?:std::option::)?Option<Infallible>>>::from_residual$')
def m_from_residual_opt(eng, m, args, dest_ts, st, where):
    # impl FromResidual<Option<Infallible>> for Option<T>: None => None
    return mk_variant(eng.ty(dest_ts), 'None')


@model('FromResidual::from_residual', r'^<Result<(.+)> as FromResidual<Result<Infallible, (.+)>>>::from_residual$')
def m_from_residual(eng, m, args, dest_ts, st, where):
    # impl FromResidual<Result<Infallible, E>> for Result<T, F: From<E>>: Err(e) => Err(From::from(e)); identical E here
    r = deref(eng, st, args[0])
    rty = eng.ty(dest_ts)
    return mk_variant(rty, 'Err', [payload(r, 'Err')[0]])


# ---------------------------------------------------------------------------------------------- Hash (trace through an uninterpreted mixer)
def hmix(kind, h, x):
    w = x.size() if not z3.is_bool(x) else 1
    if z3.is_bool(x):
        x = z3.If(x, bv(1, 1), bv(0, 1))
    f = z3.Function('hmix_%s_%d' % (kind, w), z3.BitVecSort(64), z3.BitVecSort(w), z3.BitVecSort(64))
    return f(h, x)


@model('Hash::hash', r'^<(.+) as Hash>::hash(?:::<.*>)?$')
def m_hash(eng, m, args, dest_ts, st, where):
    ts = m.group(1).strip()
    r = args[1]
    if not isinstance(r, Ref):
        raise Unsupported('hash state must be a reference')
    x = deref(eng, st, args[0])

    def go(ts, x):
        ts = ts.strip()
        mm = re.match(r"^&(?:'\w+ )?(.+)$", ts, re.S) or re.match(r'^(?:std::boxed::)?Box<(.+)>$', ts, re.S)
        if mm:
            return go(mm.group(1), x)
        tn = elem_name(ts)
        h = eng.read_ref(st, r)
        if tn in PRIMS:
            eng.write_ref(st, r, lambda old: Sc(hmix(tn, h.t, x.t)))
            return
        mm = re.match(r'^(?:std::vec::)?Vec<(.+)>$', ts, re.S)
        if mm:
            # impl Hash for Vec<T> -> [T]::hash: state.write_length_prefix(self.len()); Hash::hash_slice(self, state)
            eng.write_ref(st, r, lambda old: Sc(hmix('len', h.t, x.len)))
            for i in range(x.ty.cap):
                if x.slots[i] is None:
                    continue
                before = eng.read_ref(st, r)
                go(mm.group(1), x.slots[i])
                after = eng.read_ref(st, r)
                g = z3.UGT(x.len, i)
                eng.write_ref(st, r, lambda old: ite(g, after, before))
            return
        f = eng.find(tn, 'Hash', 'hash')
        if f is None:
            raise Unsupported('no Hash::hash for ' + ts)
        eng.inline(f, [x, r], st, where)
    tn = elem_name(ts)
    if not (ts.startswith('&') or 'Box<' in ts[:16] or tn in PRIMS or tn == 'Vec'):
        return NotImplemented
    go(ts, x)
    return UNITV


@model('Fn::call on a closure', r'^<\{closure@[^}]*\} as Fn(?:Mut|Once)?<.*>>::call(?:_mut|_once)?$')
def m_fn_call(eng, m, args, dest_ts, st, where):
    clo = deref(eng, st, args[0])
    tup = args[1]
    if isinstance(tup, Opq) and tup.what.strip() in ('const ()', '()'):
        tup = UNITV                                # `f()`: the argument tuple is the unit constant
    if not isinstance(clo, Clo) or not isinstance(tup, St):
        raise Unsupported('Fn::call on %r with %r' % (clo, tup))
    return eng.call_closure(clo, list(tup.fs), st, where)


# ---------------------------------------------------------------------------------------------- &str / String / SourceSpan (C17)
STR_BASE = z3.BitVec('str_alloc_base', 64)       # address of byte 0 of the (single) input allocation


@model('AsRef<str>::as_ref', r'^<(?:S|&str|String) as AsRef<str>>::as_ref$')
def m_as_ref_str(eng, m, args, dest_ts, st, where):
    return deref(eng, st, args[0])


@model('str::len', r'^core::str::<impl str>::len$')
def m_str_len(eng, m, args, dest_ts, st, where):
    return deref(eng, st, args[0]).fs[2]


@model('str::as_ptr', r'^core::str::<impl str>::as_ptr$')
def m_str_as_ptr(eng, m, args, dest_ts, st, where):
    s = deref(eng, st, args[0])
    return Sc(STR_BASE + s.fs[1].t)


@model('Into<String> for &str', r'^<&str as Into<String>>::into$|^<str as ToString>::to_string$|^<str as ToOwned>::to_owned$|^<String as From<&str>>::from$|^core::str::<impl str>::to_string$')
def m_str_into_string(eng, m, args, dest_ts, st, where):
    if not eng.tenv.string_as_slice:
        return NotImplemented
    return deref(eng, st, args[0])


@model('Into<SourceSpan> for (usize, usize)', r'^<\(usize, usize\) as Into<SourceSpan>>::into$')
def m_into_span(eng, m, args, dest_ts, st, where):
    t = deref(eng, st, args[0])
    return St(eng.ty(dest_ts), [t.fs[0], t.fs[1]])


@model('SourceSpan::offset', r'^SourceSpan::(offset|len)$')
def m_span_offset(eng, m, args, dest_ts, st, where):
    return deref(eng, st, args[0]).fs[0 if m.group(1) == 'offset' else 1]


@model('Result::map_err', r'^Result::<(.+)>::map_err::<.*>$')
def m_map_err(eng, m, args, dest_ts, st, where):
    r, clo = deref(eng, st, args[0]), args[1]
    rty = eng.ty(dest_ts)
    isok = is_variant(r, 'Ok')
    st2 = _sub_state(st, AND(st.pc, NOT(isok)))
    e2 = eng.call_callable(clo, [payload(r, 'Err')[0]], st2, where)
    return ite(isok, mk_variant(rty, 'Ok', [payload(r, 'Ok')[0]]), mk_variant(rty, 'Err', [e2]))


@model('integer saturating_sub', r'^core::num::<impl (u8|u16|u32|u64|usize)>::saturating_sub$')
def m_saturating_sub(eng, m, args, dest_ts, st, where):
    a, b = deref(eng, st, args[0]).t, deref(eng, st, args[1]).t
    return Sc(z3.If(z3.ULT(a, b), bv(0, a.size()), a - b))
