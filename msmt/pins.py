"""Source pins for the std models that call back into the crate's trait impls (DESIGN.md 3.4): each model is a
transcription of an item of the nightly's rust-src; the item's text is hashed here and re-hashed on every run."""
import hashlib
import json
import os
import re
import subprocess

HERE = os.path.dirname(os.path.abspath(__file__))
PINS = os.path.join(HERE, 'std_pins.json')

# key -> (file under library/, regex locating the item's first line, occurrence index)
ITEMS = {
    'Ord::max (default method)': ('core/src/cmp.rs', r'^    fn max\(self, other: Self\) -> Self$', 0),
    'Ord::min (default method)': ('core/src/cmp.rs', r'^    fn min\(self, other: Self\) -> Self$', 0),
    'cmp::max': ('core/src/cmp.rs', r'^pub const fn max<T', 0),
    'cmp::min': ('core/src/cmp.rs', r'^pub const fn min<T', 0),
    'cmp::max_by': ('core/src/cmp.rs', r'^pub const fn max_by<T', 0),
    'cmp::min_by': ('core/src/cmp.rs', r'^pub const fn min_by<T', 0),
    'PartialOrd::lt (default)': ('core/src/cmp.rs', r'^    fn lt\(&self, other: &Rhs\) -> bool \{$', 0),
    'PartialOrd::le (default)': ('core/src/cmp.rs', r'^    fn le\(&self, other: &Rhs\) -> bool \{$', 0),
    'PartialOrd::gt (default)': ('core/src/cmp.rs', r'^    fn gt\(&self, other: &Rhs\) -> bool \{$', 0),
    'PartialOrd::ge (default)': ('core/src/cmp.rs', r'^    fn ge\(&self, other: &Rhs\) -> bool \{$', 0),
    'PartialEq::ne (default)': ('core/src/cmp.rs', r'^    fn ne\(&self, other: &Rhs\) -> bool \{$', 0),
    'PartialOrd for &A: lt': ('core/src/cmp.rs', r'^        fn lt\(&self, other: &&B\) -> bool \{$', 0),
    'PartialOrd for &A: le': ('core/src/cmp.rs', r'^        fn le\(&self, other: &&B\) -> bool \{$', 0),
    'Iterator::max': ('core/src/iter/traits/iterator.rs', r'^    fn max\(self\) -> Option<Self::Item>$', 0),
    'Iterator::min': ('core/src/iter/traits/iterator.rs', r'^    fn min\(self\) -> Option<Self::Item>$', 0),
    'Iterator::max_by': ('core/src/iter/traits/iterator.rs', r'^    fn max_by<F>\(self, compare: F\) -> Option<Self::Item>$', 0),
    'Iterator::min_by': ('core/src/iter/traits/iterator.rs', r'^    fn min_by<F>\(self, compare: F\) -> Option<Self::Item>$', 0),
    'Iterator::reduce': ('core/src/iter/traits/iterator.rs', r'^    fn reduce<F>\(mut self, f: F\) -> Option<Self::Item>$', 0),
    'slice equality ([T] == [U])': ('core/src/slice/cmp.rs', r'^    fn eq\(&self, other: &\[U\]\) -> bool \{$', 0),
    'slice equality (generic element loop)': ('core/src/slice/cmp.rs', r'^    default unsafe fn equal_same_length\(', 0),
    'slice ordering (generic)': ('core/src/slice/cmp.rs', r'^    default fn compare\(left: &\[Self\], right: &\[Self\]\) -> Ordering \{$', 0),
}


def sysroot():
    return subprocess.run(['rustc', '+nightly', '--print', 'sysroot'], stdout=subprocess.PIPE).stdout.decode().strip()


def item_text(lines, rx, occ):
    hits = [i for i, l in enumerate(lines) if re.match(rx, l)]
    if len(hits) <= occ:
        return None
    i = hits[occ]
    depth, out, started = 0, [], False
    for l in lines[i:i + 80]:
        out.append(l)
        depth += l.count('{') - l.count('}')
        if '{' in l:
            started = True
        if started and depth <= 0:
            break
    return '\n'.join(out)


def compute():
    lib = os.path.join(sysroot(), 'lib/rustlib/src/rust/library')
    out, cache = {}, {}
    for key, (f, rx, occ) in ITEMS.items():
        p = os.path.join(lib, f)
        if p not in cache:
            try:
                cache[p] = open(p).read().split('\n')
            except OSError:
                cache[p] = None
        t = item_text(cache[p], rx, occ) if cache[p] is not None else None
        out[key] = {'file': f, 'sha256': hashlib.sha256(t.encode()).hexdigest() if t is not None else None}
    return out


def check():
    """-> list of pinned items whose source text changed or vanished (empty = models are up to date)"""
    try:
        want = json.load(open(PINS))
    except (OSError, ValueError):
        return ['std_pins.json missing']
    got = compute()
    return [k for k in want['items'] if got.get(k, {}).get('sha256') != want['items'][k]['sha256']]


if __name__ == '__main__':
    items = compute()
    tc = subprocess.run(['rustc', '+nightly', '--version'], stdout=subprocess.PIPE).stdout.decode().strip()
    json.dump({'toolchain': tc, 'items': items}, open(PINS, 'w'), indent=1)
    print(json.dumps(items, indent=1))
