"""Value trees with z3 leaves (pure QF_BV after flattening; no z3 datatypes).

Sc  scalar leaf (BitVec / Bool)
St  struct / tuple / array: list of field values
En  enum: 8-bit tag + payload list per variant (None = payload not materialised: the variant is not active here)
Vc  Vec / slice: 64-bit length + `cap` slots (None = slot never written)
Py-level helper values (Ref, iterator pipelines, closures, opaque) live in engine.py.
`None` stands for "no value here" (moved-out, uninitialised, inactive payload); ite() keeps the defined side.
"""
import z3
from .types import TInt, TBool, TStruct, TEnum, TVec, TOpaque, TCell, UNIT

_cnt = [0]


def _uid():
    _cnt[0] += 1
    return _cnt[0]


class Sc:
    __slots__ = ('t',)

    def __init__(self, t):
        self.t = t

    def __repr__(self):
        return 'Sc(%s)' % self.t


class St:
    __slots__ = ('ty', 'fs')

    def __init__(self, ty, fs):
        self.ty, self.fs = ty, fs

    def __repr__(self):
        return 'St(%r,%r)' % (self.ty, self.fs)


class En:
    __slots__ = ('ty', 'tag', 'vs')

    def __init__(self, ty, tag, vs):
        self.ty, self.tag, self.vs = ty, tag, vs

    def __repr__(self):
        return 'En(%r,%s)' % (self.ty, self.tag)


class Vc:
    """n: structural upper bound on the length (slots at index >= n are never populated)"""
    __slots__ = ('ty', 'len', 'slots', 'n')

    def __init__(self, ty, ln, slots, n=None):
        self.ty, self.len, self.slots = ty, ln, slots
        if len(slots) != ty.cap:
            raise ValueError('Vec value with %d slots for capacity %d' % (len(slots), ty.cap))
        if n is None:
            n = 0
            for i, x in enumerate(slots):
                if x is not None:
                    n = i + 1
        self.n = n

    def __repr__(self):
        return 'Vc(%r,len=%s)' % (self.ty, self.len)


class Opq:
    """opaque value: only moved around"""
    __slots__ = ('what',)

    def __init__(self, what=''):
        self.what = what

    def __repr__(self):
        return 'Opq(%s)' % self.what[:40]


UNITV = St(UNIT, [])


def bv(v, w):
    return z3.BitVecVal(v % (1 << w), w)


def fresh(ty, name, wf=None):
    """fresh symbolic value of type ty; well-formedness constraints (valid tags, len <= cap) appended to wf"""
    if isinstance(ty, TInt):
        return Sc(z3.BitVec('%s!%d' % (name, _uid()), ty.w))
    if isinstance(ty, TBool):
        return Sc(z3.Bool('%s!%d' % (name, _uid())))
    if isinstance(ty, TStruct):
        return St(ty, [fresh(t, name + '.' + f, wf) for f, t in ty.fields])
    if isinstance(ty, TEnum):
        tag = z3.BitVec('%s.tag!%d' % (name, _uid()), 8)
        if wf is not None:
            wf.append(z3.ULT(tag, len(ty.variants)) if ty.variants else z3.BoolVal(False))
        return En(ty, tag, [[fresh(t, '%s.%s%d' % (name, vn, i), wf) for i, t in enumerate(ts)] for vn, ts in ty.variants])
    if isinstance(ty, TVec):
        ln = z3.BitVec('%s.len!%d' % (name, _uid()), 64)
        if wf is not None:
            wf.append(z3.ULE(ln, ty.cap))
        return Vc(ty, ln, [fresh(ty.elem, '%s[%d]' % (name, i), wf) for i in range(ty.cap)], ty.cap)
    if isinstance(ty, TCell):
        return fresh(ty.inner, name, wf)
    if isinstance(ty, TOpaque):
        return Opq(ty.name)
    raise TypeError('fresh: %r' % (ty,))


def default(ty):
    if isinstance(ty, TInt):
        return Sc(z3.BitVecVal(0, ty.w))
    if isinstance(ty, TBool):
        return Sc(z3.BoolVal(False))
    if isinstance(ty, TStruct):
        return St(ty, [default(t) for f, t in ty.fields])
    if isinstance(ty, TEnum):
        return En(ty, z3.BitVecVal(0, 8), [None for _ in ty.variants])
    if isinstance(ty, TVec):
        return Vc(ty, z3.BitVecVal(0, 64), [None] * ty.cap, 0)
    if isinstance(ty, TCell):
        return default(ty.inner)
    if isinstance(ty, TOpaque):
        return Opq(ty.name)
    raise TypeError('default: %r' % (ty,))


def leaves(v, out=None):
    """all z3 leaves, deterministic order; None parts contribute nothing"""
    if out is None:
        out = []
    if v is None:
        return out
    if isinstance(v, Sc):
        out.append(v.t)
    elif isinstance(v, St):
        for f in v.fs:
            leaves(f, out)
    elif isinstance(v, En):
        out.append(v.tag)
        for p in v.vs:
            if p is not None:
                for f in p:
                    leaves(f, out)
    elif isinstance(v, Vc):
        out.append(v.len)
        for s in v.slots:
            leaves(s, out)
    elif hasattr(v, 'leaves'):
        v.leaves(out)
    return out


def vmap(f, v):
    """apply f to every z3 leaf"""
    if v is None:
        return None
    if isinstance(v, Sc):
        return Sc(f(v.t))
    if isinstance(v, St):
        return St(v.ty, [vmap(f, x) for x in v.fs])
    if isinstance(v, En):
        return En(v.ty, f(v.tag), [None if p is None else [vmap(f, x) for x in p] for p in v.vs])
    if isinstance(v, Vc):
        return Vc(v.ty, f(v.len), [vmap(f, x) for x in v.slots], v.n)
    if hasattr(v, 'vmap'):
        return v.vmap(f)
    return v


def _ite_leaf(c, x, y):
    if x is y or x.eq(y):
        return x
    return z3.If(c, x, y)


def ite(c, a, b):
    """leaf-wise if-then-else; a missing side (None) yields the other side"""
    if a is None or type(a).__name__ == 'NoValue':
        return b
    if b is None or type(b).__name__ == 'NoValue':
        return a
    if a is b:
        return a
    if z3.is_true(c):
        return a
    if z3.is_false(c):
        return b
    if isinstance(a, Sc):
        return Sc(_ite_leaf(c, a.t, b.t))
    if isinstance(a, St):
        if not isinstance(b, St) or len(a.fs) != len(b.fs):
            raise TypeError('ite: shape mismatch %r / %r' % (a, b))
        return St(a.ty, [ite(c, x, y) for x, y in zip(a.fs, b.fs)])
    if isinstance(a, En):
        vs = []
        for p, q in zip(a.vs, b.vs):
            if p is None:
                vs.append(q)
            elif q is None:
                vs.append(p)
            else:
                vs.append([ite(c, x, y) for x, y in zip(p, q)])
        return En(a.ty, _ite_leaf(c, a.tag, b.tag), vs)
    if isinstance(a, Vc):
        return Vc(a.ty, _ite_leaf(c, a.len, b.len), [ite(c, x, y) for x, y in zip(a.slots, b.slots)], max(a.n, b.n))
    if isinstance(a, Opq):
        return a
    if hasattr(a, 'ite'):
        return a.ite(c, b)
    raise TypeError('ite: %r' % (a,))


def mk_variant(ty, name, args=()):
    i = ty.vindex(name)
    return En(ty, z3.BitVecVal(i, 8), [list(args) if j == i else None for j in range(len(ty.variants))])


def is_variant(e, name):
    return e.tag == e.ty.vindex(name)


def payload(e, name):
    """payload list of variant `name`, materialising defaults if the variant was never active on this value"""
    i = e.ty.vindex(name) if isinstance(name, str) else name
    p = e.vs[i]
    if p is None:
        p = [default(t) for t in e.ty.variants[i][1]]
    return p


def discr(e, w):
    d = e.ty.discr
    if not d:
        return z3.BitVecVal(0, w)
    r = bv(d[-1], w)
    for i in range(len(d) - 2, -1, -1):
        r = z3.If(e.tag == i, bv(d[i], w), r)
    return z3.simplify(r)


def simp(v):
    return vmap(z3.simplify, v)


def substituter(pairs):
    """t -> t[from := to]; one array conversion per instantiation instead of z3.substitute's per-call checks"""
    pairs = [(a, b) for a, b in pairs if not a.eq(b)]
    if not pairs:
        return lambda t: t
    n = len(pairs)
    ctx = pairs[0][0].ctx
    frm = (z3.Ast * n)(*[a.as_ast() for a, _ in pairs])
    to = (z3.Ast * n)(*[b.as_ast() for _, b in pairs])
    keep = pairs
    core, ref, wrap = z3.z3core.Z3_substitute, ctx.ref(), z3.z3._to_expr_ref

    def sub(t):
        if t.num_args() == 0 and not z3.is_const(t):
            return t
        return wrap(core(ref, t.as_ast(), n, frm, to), ctx)
    sub.keep = keep
    return sub


def substitute(v, pairs):
    if not pairs:
        return v
    return vmap(substituter(pairs), v)


def pair_leaves(formal, actual, out):
    """zip the leaves of a fully materialised formal with an actual that may have None parts (-> zeros)"""
    if isinstance(formal, Sc):
        if actual is None:
            return
        out.append((formal.t, actual.t))
    elif isinstance(formal, St):
        if actual is None:
            return
        if not isinstance(actual, St):
            raise TypeError('pair_leaves: %r vs %r' % (formal, actual))
        for f, a in zip(formal.fs, actual.fs):
            pair_leaves(f, a, out)
    elif isinstance(formal, En):
        if actual is None:
            return
        out.append((formal.tag, actual.tag))
        for p, q in zip(formal.vs, actual.vs):
            if q is None:
                continue
            for f, a in zip(p, q):
                pair_leaves(f, a, out)
    elif isinstance(formal, Vc):
        if actual is None:
            return
        out.append((formal.len, actual.len))
        for f, a in zip(formal.slots, actual.slots):
            pair_leaves(f, a, out)
    elif isinstance(formal, Opq):
        return
    else:
        raise TypeError('pair_leaves: %r' % (formal,))
