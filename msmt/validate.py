"""Validation of the translator (DESIGN.md 3.8): the repository's own test inputs plus seeded, tie-heavy random inputs
are pushed through both the native build (replay binary, public API) and the encoding (summaries instantiated with
constants and simplified to values); any disagreement makes the check inconclusive."""
import os
import random
import re
import z3

from . import replay as rp
from .engine import Unsupported
from .values import Sc, St, En, Vc, bv, mk_variant, payload, is_variant, simp


class ConstModel:
    """stands in for a z3 model when every term is closed: eval = simplify"""
    def eval(self, t, model_completion=True):
        r = z3.simplify(t)
        if not (z3.is_bv_value(r) or z3.is_true(r) or z3.is_false(r)):
            raise Unsupported('encoding did not reduce to a value: %s' % str(r)[:120])
        return r


# ------------------------------------------------------------------ corpus
def source_literals(ws):
    srcdir = os.path.join(ws['crate_dir'], 'src')
    ranges, versions = [], []
    txt = open(os.path.join(srcdir, 'range.rs')).read()
    for m in re.finditer(r'=> \["((?:[^"\\]|\\.)*)", "((?:[^"\\]|\\.)*)"\]', txt):
        ranges.append(m.group(1).replace('\\t', '\t'))
        ranges.append(m.group(2))
    for m in re.finditer(r'(?:allows|denies) => \[([^\]]*)\]', txt):
        ranges += re.findall(r'"([^"]*)"', m.group(1))
    for m in re.finditer(r'\("([^"]+)", Some\("([^"]+)"\)\)', txt):
        ranges.append(m.group(1))
        versions.append(m.group(2))
    lib = open(os.path.join(srcdir, 'lib.rs')).read()
    for m in re.finditer(r'\("(\d[^"]*)", "(\d[^"]*)", "\w+"\)', lib):
        versions += [m.group(1), m.group(2)]
    versions += re.findall(r'"(\d+\.\d+\.\d+(?:-[0-9A-Za-z.-]+)?(?:\+[0-9A-Za-z.-]+)?)"', lib)
    return sorted(set(ranges)), sorted(set(versions))


POOL = ['0.0.0', '0.0.0-0', '1.0.0', '1.0.0-0', '1.0.0-alpha', '1.0.0-alpha.1', '1.0.1', '1.2.3', '1.2.3-beta.2', '2.0.0', '2.0.0-0', '1.0.0-rc+b1']


def random_ranges(rng, n):
    out = []
    pool = rng.sample(POOL, 4)                 # few versions, so that ties between bounds are the common case
    for _ in range(n):
        alts = []
        for _ in range(rng.choice([1, 1, 2, 3])):
            a, b = rng.choice(pool), rng.choice(pool)
            alts.append(rng.choice(['>=%s' % a, '>%s' % a, '<%s' % b, '<=%s' % b, '%s' % a, '>=%s <%s' % (a, b), '>%s <=%s' % (a, b), '>=%s <=%s' % (a, b), '>%s <%s' % (a, b), '*']))
        out.append(' || '.join(alts))
    return out, pool


# ------------------------------------------------------------------ parsing printed forms
def parse_ident(s):
    return {'n': int(s)} if re.fullmatch(r'\d+', s) and (s == '0' or not s.startswith('0')) and int(s) < (1 << 64) else {'s': s}


def parse_version(t):
    m = re.fullmatch(r'(\d+)\.(\d+)\.(\d+)(?:-([0-9A-Za-z.-]+))?(?:\+([0-9A-Za-z.-]+))?', t)
    if not m:
        raise ValueError('version text ' + t)
    return {'major': int(m.group(1)), 'minor': int(m.group(2)), 'patch': int(m.group(3)),
            'pre': [parse_ident(x) for x in m.group(4).split('.')] if m.group(4) else [],
            'build': [parse_ident(x) for x in m.group(5).split('.')] if m.group(5) else []}


def parse_printed_range(t):
    """the primitive forms BoundSet's Display prints -> [{'lo': {...}, 'hi': {...}}]"""
    out = []
    for alt in t.split('||'):
        alt = alt.strip()
        lo, hi = {'k': 'U'}, {'k': 'U'}
        if alt != '*':
            for tok in alt.split(' '):
                m = re.fullmatch(r'(>=|<=|>|<)?(.+)', tok)
                op, v = m.group(1), parse_version(m.group(2))
                if op == '>=':
                    lo = {'k': 'I', 'v': v}
                elif op == '>':
                    lo = {'k': 'E', 'v': v}
                elif op == '<=':
                    hi = {'k': 'I', 'v': v}
                elif op == '<':
                    hi = {'k': 'E', 'v': v}
                else:
                    lo, hi = {'k': 'I', 'v': v}, {'k': 'I', 'v': v}
        out.append({'lo': lo, 'hi': hi})
    return out


# ------------------------------------------------------------------ constants of the value model
class Consts:
    def __init__(self, h, strings):
        self.h = h
        self.tok = {s: i + 1 for i, s in enumerate(sorted(set(strings), key=lambda x: x.encode()))}
        self.names = {v: k for k, v in self.tok.items()}

    def ident(self, i):
        h = self.h
        if 'n' in i:
            return mk_variant(h.I, 'Numeric', [Sc(bv(i['n'], 64))])
        return mk_variant(h.I, 'AlphaNumeric', [Sc(bv(self.tok[i['s']], 16))])

    def idents(self, lst, vt):
        if len(lst) > vt.cap:
            raise Unsupported('identifier list longer than the capacity')
        return Vc(vt, bv(len(lst), 64), [self.ident(i) for i in lst] + [None] * (vt.cap - len(lst)), len(lst))

    def version(self, v):
        h = self.h
        vt = h.V.fields[4][1]
        return St(h.V, [Sc(bv(v['major'], 64)), Sc(bv(v['minor'], 64)), Sc(bv(v['patch'], 64)), self.idents(v['build'], vt), self.idents(v['pre'], vt)])

    def pred(self, p):
        h = self.h
        if p['k'] == 'U':
            return mk_variant(h.P, 'Unbounded')
        return mk_variant(h.P, 'Including' if p['k'] == 'I' else 'Excluding', [self.version(p['v'])])

    def bs(self, b):
        h = self.h
        return St(h.BS, [mk_variant(h.B, 'Upper', [self.pred(b['hi'])]), mk_variant(h.B, 'Lower', [self.pred(b['lo'])])])

    def range_(self, r):
        h = self.h
        vt = h.R.fields[0][1]
        if len(r) > vt.cap:
            raise Unsupported('range with more alternatives than the capacity')
        return St(h.R, [Vc(vt, bv(len(r), 64), [self.bs(b) for b in r] + [None] * (vt.cap - len(r)), len(r))])

    # decoding closed results back to the JSON shapes (string tokens -> strings)
    def fix(self, x):
        if isinstance(x, dict):
            if 'tok' in x:
                return {'s': self.names.get(x['tok'], '?%d' % x['tok'])}
            return {k: self.fix(v) for k, v in x.items()}
        if isinstance(x, list):
            return [self.fix(v) for v in x]
        return x


def strings_of(*objs):
    out = []

    def walk(x):
        if isinstance(x, dict):
            if 's' in x and len(x) == 1:
                out.append(x['s'])
            for v in x.values():
                walk(v)
        elif isinstance(x, list):
            for v in x:
                walk(v)
    for o in objs:
        walk(o)
    return out


def vtext(v):
    f = lambda i: str(i['n']) if 'n' in i else i['s']
    s = '%d.%d.%d' % (v['major'], v['minor'], v['patch'])
    if v['pre']:
        s += '-' + '.'.join(f(i) for i in v['pre'])
    if v.get('build'):
        s += '+' + '.'.join(f(i) for i in v['build'])
    return s


def rtext(r):
    names = {}
    conv = lambda v: {'major': v['major'], 'minor': v['minor'], 'patch': v['patch'], 'pre': v['pre'], 'build': v.get('build', [])}

    def bt(b):
        lo, hi = b['lo'], b['hi']
        if lo['k'] == 'U' and hi['k'] == 'U':
            return '*'
        if lo['k'] == 'U':
            return ('<=' if hi['k'] == 'I' else '<') + vtext(hi['v'])
        if hi['k'] == 'U':
            return ('>=' if lo['k'] == 'I' else '>') + vtext(lo['v'])
        a, c = dict(lo['v'], build=[]), dict(hi['v'], build=[])
        if lo['k'] == 'I' and hi['k'] == 'I' and vtext(a) == vtext(c):
            return vtext(lo['v'])
        return '%s%s %s%s' % ('>=' if lo['k'] == 'I' else '>', vtext(lo['v']), '<=' if hi['k'] == 'I' else '<', vtext(hi['v']))
    return '||'.join(bt(b) for b in r)


# ------------------------------------------------------------------ the differential run
def run(s, want=('satisfies', 'intersect', 'difference', 'allows_any', 'allows_all', 'min_version', 'cmp', 'diff', 'max_satisfying'), n_random=24, max_pairs=40, L=2, K=3):
    rng = random.Random(s.seed * 7919 + 17)
    lit_r, lit_v = source_literals(s.ws)
    rnd_r, pool = random_ranges(rng, n_random)
    texts = lit_r + rnd_r
    # 1. native: parse + print every text; keep those that parse
    prog = [{'id': 'r%d' % i, 'op': 'range', 'text': t} for i, t in enumerate(texts)]
    nat = rp.run(s.binary, [prog])[0]
    ranges = []
    for i, t in enumerate(texts):
        x = nat.get('r%d' % i) or {}
        if x.get('ok'):
            try:
                pr = parse_printed_range(x['print'])
            except ValueError:
                continue
            if len(pr) <= K and all(len(p['v']['pre']) <= L and len(p['v'].get('build', [])) <= L for b in pr for p in (b['lo'], b['hi']) if p['k'] != 'U'):
                ranges.append((x['print'], pr))
    seen, uniq = set(), []
    for pt, pr in ranges:
        if pt not in seen:
            seen.add(pt)
            uniq.append((pt, pr))
    ranges = uniq
    versions = []
    for t in sorted(set(lit_v + POOL)):
        try:
            v = parse_version(t)
        except ValueError:
            continue
        if len(v['pre']) <= L and len(v['build']) <= L:
            versions.append((t, v))
    h = s.harness(L=L, cap_bs=2 ** K + K, caps={'Version': 4})
    h.eng.define_enabled = False
    h.eng.inline_all = True
    C = Consts(h, strings_of([pr for _, pr in ranges], [v for _, v in versions]))
    M = ConstModel()
    rvals = [C.range_(pr) for _, pr in ranges]
    vvals = [C.version(v) for _, v in versions]
    # 2. choose cases
    pairs = [(i, j) for i in range(len(ranges)) for j in range(len(ranges))]
    rng.shuffle(pairs)
    tie_pairs = [(i, j) for i, j in pairs if ranges[i][0] in rnd_set(rnd_r, nat, texts) and ranges[j][0] in rnd_set(rnd_r, nat, texts)]
    pairs = (tie_pairs[:max_pairs // 2] + pairs)[:max_pairs]
    prog = [{'id': 'R%d' % i, 'op': 'range', 'text': pt if pt != '*' else '*any*'} for i, (pt, _) in enumerate(ranges)]
    prog += [{'id': 'V%d' % j, 'op': 'version', 'text': t} for j, (t, _) in enumerate(versions)]
    sat_cases = [(i, j) for i in range(len(ranges)) for j in range(len(versions))]
    rng.shuffle(sat_cases)
    sat_cases = sat_cases[:3 * max_pairs]
    vpairs = [(i, j) for i in range(len(versions)) for j in range(len(versions))]
    rng.shuffle(vpairs)
    vpairs = vpairs[:max_pairs]
    if 'satisfies' in want:
        prog += [{'id': 's%d_%d' % c, 'op': 'satisfies', 'r': 'R%d' % c[0], 'v': 'V%d' % c[1]} for c in sat_cases]
    for op in ('intersect', 'difference', 'allows_any', 'allows_all'):
        if op in want:
            prog += [{'id': '%s%d_%d' % (op, i, j), 'op': op, 'a': 'R%d' % i, 'b': 'R%d' % j} for i, j in pairs]
    if 'min_version' in want:
        prog += [{'id': 'm%d' % i, 'op': 'min_version', 'r': 'R%d' % i} for i in range(len(ranges))]
    if 'cmp' in want or 'diff' in want:
        prog += [{'id': 'c%d_%d' % p, 'op': 'cmp', 'a': 'V%d' % p[0], 'b': 'V%d' % p[1]} for p in vpairs]
        prog += [{'id': 'd%d_%d' % p, 'op': 'diff', 'a': 'V%d' % p[0], 'b': 'V%d' % p[1]} for p in vpairs]
    if 'max_satisfying' in want:
        prog += [{'id': 'x%d' % i, 'op': 'max_satisfying', 'r': 'R%d' % i, 'vs': ['V%d' % j for j in range(min(4, len(versions)))]} for i in range(len(ranges))]
    nat = rp.run(s.binary, [prog], timeout=300)[0]
    # `*` is rebuilt as Range::any(); skip ranges the native side could not rebuild identically
    okr = {i for i, (pt, _) in enumerate(ranges) if (nat.get('R%d' % i) or {}).get('ok') and (nat['R%d' % i]['print'] == pt)}
    # 3. the encoding on the same constants
    e = h.eng
    fn = lambda n: h.fn('Range', None, n)
    bad, n = [], 0

    def cmpres(what, got, exp):
        nonlocal n
        n += 1
        if got != exp:
            bad.append('%s: encoding %r, native %r' % (what, got, exp))
    if 'satisfies' in want:
        f = fn('satisfies')
        for i, j in sat_cases:
            if i in okr:
                cmpres('satisfies(%s, %s)' % (ranges[i][0], versions[j][0]), z3.is_true(M.eval(h.call(f, rvals[i], vvals[j]).t)), nat['s%d_%d' % (i, j)])
    for op in ('intersect', 'difference'):
        if op in want:
            f = fn(op)
            for i, j in pairs:
                if i in okr and j in okr:
                    r = h.call(f, rvals[i], rvals[j])
                    dec = C.fix(h.dec_opt_range(M, simp(r)))
                    got = None if dec is None else rtext(dec)
                    x = nat['%s%d_%d' % (op, i, j)]
                    exp = x.get('print') if x.get('some') else (None if 'panic' not in x else 'PANIC')
                    cmpres('%s.%s(%s)' % (ranges[i][0], op, ranges[j][0]), got, exp)
    for op in ('allows_any', 'allows_all'):
        if op in want:
            f = fn(op)
            for i, j in pairs:
                if i in okr and j in okr:
                    cmpres('%s.%s(%s)' % (ranges[i][0], op, ranges[j][0]), z3.is_true(M.eval(h.call(f, rvals[i], rvals[j]).t)), nat['%s%d_%d' % (op, i, j)])
    if 'min_version' in want:
        f = fn('min_version')
        for i in sorted(okr)[:4 * max_pairs]:
            r = simp(h.call(f, rvals[i]))
            got = None if M.eval(r.tag).as_long() == 0 else vtext(C.fix(h.dec_version(M, payload(r, 'Some')[0])))
            x = nat['m%d' % i]
            cmpres('min_version(%s)' % ranges[i][0], got, x['v']['print'] if x.get('some') else None)
    if 'cmp' in want:
        for i, j in vpairs:
            c = M.eval(h.cmp(vvals[i], vvals[j]).tag).as_long() - 1
            q = z3.is_true(M.eval(h.call(h.f_veq, vvals[i], vvals[j]).t))
            cmpres('cmp(%s, %s)' % (versions[i][0], versions[j][0]), (c, q), (nat['c%d_%d' % (i, j)]['cmp'], nat['c%d_%d' % (i, j)]['eq']))
    if 'diff' in want:
        f = h.fn('Version', None, 'diff')
        from .oracles import DIFF_NAMES
        for i, j in vpairs:
            r = simp(h.call(f, vvals[i], vvals[j]))
            got = 'none' if M.eval(r.tag).as_long() == 0 else DIFF_NAMES[M.eval(payload(r, 'Some')[0].tag).as_long()]
            cmpres('diff(%s, %s)' % (versions[i][0], versions[j][0]), got, nat['d%d_%d' % (i, j)])
    if 'max_satisfying' in want:
        f = fn('max_satisfying')
        k = min(4, len(versions))
        vt = e.ty('&[Version]')
        if vt.cap >= k:
            sl = Vc(vt, bv(k, 64), vvals[:k] + [None] * (vt.cap - k), k)
            for i in sorted(okr, key=lambda i: (len(ranges[i][1]), i))[:max_pairs]:
                r = simp(h.call(f, rvals[i], sl))
                got = None if M.eval(r.tag).as_long() == 0 else vtext(C.fix(h.dec_version(M, payload(r, 'Some')[0])))
                x = nat['x%d' % i]
                cmpres('max_satisfying(%s)' % ranges[i][0], got, x['v']['print'] if x.get('some') else None)
    s.validated += n
    s.add(ob='translator validation: %d native evaluations (%d range texts from the repository\'s tests and %d seeded tie-heavy ones, %d versions) reproduced by the encoding on constants' % (n, len(lit_r), len(rnd_r), len(versions)),
          mode='concrete', solver_s=0.0, kind='prove', verdict='inconclusive' if bad else 'holds',
          detail=('encoder-mismatch: ' + '; '.join(bad[:4])) if bad else '', case={'evaluations': n, 'ranges': len(okr), 'pool': pool})
    return n, bad


_RND_CACHE = {}


def rnd_set(rnd_r, nat, texts):
    key = id(rnd_r)
    if key not in _RND_CACHE:
        st = set()
        for i, t in enumerate(texts):
            if t in rnd_r:
                x = nat.get('r%d' % i) or {}
                if x.get('ok'):
                    st.add(x['print'])
        _RND_CACHE[key] = st
    return _RND_CACHE[key]


def validation_group(ops, tier):
    def g(s):
        heavy = any(o in ops for o in ('intersect', 'difference', 'min_version', 'max_satisfying'))
        q, t = (60, 400) if heavy else (200, 1200)
        run(s, want=tuple(ops), n_random=24 if tier == 'quick' else 80, max_pairs=q if tier == 'quick' else t)
    return {'name': 'translator-validation', 'fn': g, 'args': {}}
