"""Types of the value model and their recovery from MIR type strings + the crate's source.

Layouts (field order, variant order) of the crate's own structs/enums are read from the copied source on
every run; std types that the encoded code touches are built in (Option, Result, Ordering, ControlFlow,
ErrMode, Vec, Box, references, tuples, arrays).
"""
import re
from .mir import split_top


class Ty:
    pass


class TInt(Ty):
    def __init__(self, w, signed=False, name=None):
        self.w, self.signed, self.name = w, signed, name or ('%s%d' % ('i' if signed else 'u', w))

    def __repr__(self):
        return self.name


class TBool(Ty):
    def __repr__(self):
        return 'bool'


class TStruct(Ty):
    def __init__(self, name, fields):
        self.name, self.fields = name, fields          # [(fname, Ty)]

    def __repr__(self):
        return self.name

    def index(self, fname):
        for i, (f, _) in enumerate(self.fields):
            if f == fname:
                return i
        raise KeyError(fname)


class TEnum(Ty):
    def __init__(self, name, variants, discr=None):
        self.name, self.variants = name, variants      # [(vname, [Ty])]
        self.discr = discr or list(range(len(variants)))

    def __repr__(self):
        return self.name

    def vindex(self, vname):
        for i, (v, _) in enumerate(self.variants):
            if v == vname:
                return i
        raise KeyError('%s::%s' % (self.name, vname))


class TVec(Ty):
    """Vec<T> / [T] / &[T]: symbolic length + `cap` slots"""
    def __init__(self, elem, cap):
        self.elem, self.cap = elem, cap

    def __repr__(self):
        return 'Vec<%r;%d>' % (self.elem, self.cap)


class TOpaque(Ty):
    """a value the encoded code only passes around (closures without captures, fmt machinery, fn items, ...)"""
    def __init__(self, name):
        self.name = name

    def __repr__(self):
        return 'opaque(%s)' % self.name[:30]


class TCell(Ty):
    """&mut T in a signature: the callee gets the pointee by copy-in/copy-out"""
    def __init__(self, inner):
        self.inner = inner

    def __repr__(self):
        return '&mut %r' % self.inner


BOOL = TBool()
U8, U16, U32, U64, USIZE = TInt(8, False, 'u8'), TInt(16, False, 'u16'), TInt(32, False, 'u32'), TInt(64, False, 'u64'), TInt(64, False, 'usize')
I8, I16, I32, I64, ISIZE = TInt(8, True, 'i8'), TInt(16, True, 'i16'), TInt(32, True, 'i32'), TInt(64, True, 'i64'), TInt(64, True, 'isize')
U128, I128 = TInt(128, False, 'u128'), TInt(128, True, 'i128')
CHAR = TInt(32, False, 'char')
INTS = {t.name: t for t in (U8, U16, U32, U64, USIZE, I8, I16, I32, I64, ISIZE, U128, I128, CHAR)}
UNIT = TStruct('()', [])
STRTOK = TInt(16, False, 'String')          # abstract ordered token standing for a String's contents
ORDERING = TEnum('Ordering', [('Less', []), ('Equal', []), ('Greater', [])], [-1, 0, 1])
# &str as used by the error-construction code (C17): allocation id, byte offset in it, length
STRSLICE = TStruct('&str', [('alloc', TInt(8, False, 'alloc')), ('off', USIZE), ('len', USIZE)])


class TypeEnv:
    """caps: {'Identifier': L, 'BoundSet': K, ...} capacity per Vec element type name (default `default_cap`)"""

    def __init__(self, sources, caps=None, default_cap=2):
        self.caps = dict(caps or {})
        self.default_cap = default_cap
        self.items = {}          # name -> ('struct'|'enum', generics, text)
        self.string_as_slice = False   # C17: a String remembers which slice of which allocation it was copied from
        self.ghost = {}          # struct name -> [(field, Ty)] appended after the real fields (rank abstraction)
        self.cache = {}
        self.generic_cache = {}
        for src in sources:
            self._scan_items(src)

    # ---- source scanning -------------------------------------------------
    def _scan_items(self, text):
        text = re.sub(r'//[^\n]*', '', text)
        text = re.sub(r'/\*.*?\*/', '', text, flags=re.S)
        for m in re.finditer(r'\b(struct|enum)\s+(\w+)\s*(<[^>{(;]*>)?\s*([({;])', text):
            kind, name, gen, opener = m.groups()
            if opener == ';':
                self.items[name] = (kind, [], '', 'unit')
                continue
            i = m.end() - 1
            close = {'(': ')', '{': '}'}[opener]
            d, j = 0, i
            while j < len(text):
                if text[j] == opener:
                    d += 1
                elif text[j] == close:
                    d -= 1
                    if d == 0:
                        break
                j += 1
            body = text[i + 1:j]
            gens = [g.strip().split(':')[0].strip() for g in split_top(gen[1:-1])] if gen else []
            gens = [g for g in gens if not g.startswith("'")]
            self.items[name] = (kind, gens, body, 'tuple' if opener == '(' else 'named')

    @staticmethod
    def _strip_attrs(s):
        s = s.strip()
        while s.startswith('#['):
            d, j = 0, 1
            while j < len(s):
                if s[j] == '[':
                    d += 1
                elif s[j] == ']':
                    d -= 1
                    if d == 0:
                        break
                j += 1
            s = s[j + 1:].strip()
        s = re.sub(r'^pub(\([^)]*\))?\s+', '', s)
        return s

    def _build_item(self, name, args):
        kind, gens, body, shape = self.items[name]
        sub = dict(zip(gens, args))

        def ty(t):
            t = t.strip()
            if t in sub:
                return sub[t]
            return self.parse(t, sub)
        if kind == 'struct':
            if shape == 'unit':
                return TStruct(name, [])
            parts = [self._strip_attrs(p) for p in split_top(body)]
            parts = [p for p in parts if p]
            if shape == 'tuple':
                return TStruct(name, [(str(i), ty(p)) for i, p in enumerate(parts)])
            fields = []
            for p in parts:
                fname, ft = p.split(':', 1)
                fields.append((fname.strip(), ty(ft)))
            fields += self.ghost.get(name, [])
            return TStruct(name, fields)
        variants = []
        for p in split_top(body):
            p = self._strip_attrs(p)
            if not p:
                continue
            m = re.match(r'^(\w+)\s*(?:\((.*)\)|\{(.*)\})?\s*(?:=\s*(-?\d+))?$', p, re.S)
            vname = m.group(1)
            if m.group(2) is not None:
                fts = [ty(self._strip_attrs(x)) for x in split_top(m.group(2))]
            elif m.group(3) is not None:
                fts = [ty(self._strip_attrs(x).split(':', 1)[1]) for x in split_top(m.group(3)) if x.strip()]
            else:
                fts = []
            variants.append((vname, fts))
        return TEnum(name, variants)

    # ---- type strings ------------------------------------------------------
    def cap_for(self, elem):
        key = 'Vec' if isinstance(elem, TVec) else (getattr(elem, 'name', None) or repr(elem))
        if key not in self.caps and isinstance(elem, TStruct):
            # a tuple / wrapper around a configured element type (work-lists of `(BoundSet, usize)`) gets that type's capacity
            inner = [self.caps[getattr(f, 'name', None)] for _, f in elem.fields if getattr(f, 'name', None) in self.caps]
            if inner:
                return max(inner)
        return self.caps.get(key, self.default_cap)

    def parse(self, t, sub=None):
        t = t.strip()
        key = t if not sub else None
        if key is not None and key in self.cache:
            return self.cache[key]
        r = self._parse(t, sub or {})
        if key is not None:
            self.cache[key] = r
        return r

    def _parse(self, t, sub):
        if t in sub:
            return sub[t]
        # references / pointers / Box: transparent, except `&mut` (cell) at the outermost level of signatures
        m = re.match(r"^&(?:'\w+ )?mut (.+)$", t, re.S)
        if m:
            return TCell(self.parse(m.group(1), sub))
        m = re.match(r"^&(?:'\w+ )?(.+)$", t, re.S)
        if m:
            inner = m.group(1).strip()
            if inner == 'str':
                return STRSLICE
            return self.parse(inner, sub)
        m = re.match(r'^\*(?:const|mut) (.+)$', t, re.S)
        if m:
            return self.parse(m.group(1), sub)
        if t == '()':
            return UNIT
        if t == '!':
            return UNIT
        if t == 'bool':
            return BOOL
        if t in INTS:
            return INTS[t]
        if t == 'str':
            return STRSLICE
        if t.startswith('(') and t.endswith(')'):
            parts = split_top(t[1:-1])
            return TStruct('tuple', [(str(i), self.parse(p, sub)) for i, p in enumerate(parts)])
        if t.startswith('[') and t.endswith(']'):
            inner = t[1:-1]
            m = re.match(r'^(.*); (\d+)$', inner, re.S)
            if m:
                e = self.parse(m.group(1), sub)
                n = int(m.group(2))
                return TStruct('array%d' % n, [(str(i), e) for i in range(n)])
            e = self.parse(inner, sub)
            return TVec(e, self.cap_for(e))
        if t.startswith('{closure@') or t.startswith('for<') or t.startswith('fn(') or t.startswith('dyn ') or t.startswith('impl '):
            return TOpaque(t)
        # path with optional generics
        m = re.match(r'^([\w:]+?)(?:::)?(<.*>)?$', t, re.S)
        if not m:
            return TOpaque(t)
        path, gen = m.group(1), m.group(2)
        name = path.split('::')[-1]
        args_s = split_top(gen[1:-1]) if gen else []
        args_s = [a for a in args_s if not a.startswith("'")]
        if name in ('Box', 'Rc', 'Arc', 'ManuallyDrop', 'MaybeUninit', 'MaybeDangling', 'Unique', 'NonNull') and args_s:
            return self.parse(args_s[0], sub)
        if path.startswith(('std::ops::', 'core::ops::', 'std::ops::range::', 'core::ops::range::')) and name in ('Range', 'RangeInclusive', 'RangeFrom', 'RangeTo') and args_s:
            a = self.parse(args_s[0], sub)
            fields = {'Range': [('start', a), ('end', a)], 'RangeInclusive': [('start', a), ('end', a), ('exhausted', BOOL)],
                      'RangeFrom': [('start', a)], 'RangeTo': [('end', a)]}[name]
            return self._generic('ops::' + name, (a,), lambda: TStruct('ops::' + name, fields))
        if name == 'Vec' and args_s:
            e = self.parse(args_s[0], sub)
            return TVec(e, self.cap_for(e))
        if name == 'String':
            return STRSLICE if self.string_as_slice else STRTOK
        if name == 'Ordering':
            return ORDERING
        if name == 'Option' and args_s:
            a = self.parse(args_s[0], sub)
            return self._generic('Option', (a,), lambda: TEnum('Option', [('None', []), ('Some', [a])]))
        if name == 'Result' and len(args_s) == 2:
            a, b = self.parse(args_s[0], sub), self.parse(args_s[1], sub)
            return self._generic('Result', (a, b), lambda: TEnum('Result', [('Ok', [a]), ('Err', [b])]))
        if name == 'ControlFlow' and args_s:
            a = self.parse(args_s[0], sub)
            b = self.parse(args_s[1], sub) if len(args_s) > 1 else UNIT
            return self._generic('ControlFlow', (a, b), lambda: TEnum('ControlFlow', [('Continue', [b]), ('Break', [a])]))
        if name == 'ErrMode' and args_s:
            a = self.parse(args_s[0], sub)
            return self._generic('ErrMode', (a,), lambda: TEnum('ErrMode', [('Incomplete', [TOpaque('Needed')]), ('Backtrack', [a]), ('Cut', [a])]))
        if name == 'Infallible':
            return TEnum('Infallible', [])
        if name == 'SourceSpan':
            return TStruct('SourceSpan', [('offset', USIZE), ('length', USIZE)])
        if name == 'ParseIntError':
            return TStruct('ParseIntError', [('kind', U8)])
        if name == 'PhantomData':
            return UNIT
        if name in self.items:
            args = tuple(self.parse(a, sub) for a in args_s)
            return self._generic(name, args, lambda: self._build_item(name, args))
        return TOpaque(t)

    def _generic(self, name, args, build):
        key = (name,) + tuple(id(a) for a in args)
        if key not in self.generic_cache:
            self.generic_cache[key] = (build(), args)       # keep args alive so ids stay unique
        return self.generic_cache[key][0]

    def option(self, inner):
        return self._generic('Option', (inner,), lambda: TEnum('Option', [('None', []), ('Some', [inner])]))
