"""Per-run workspace: copy of /repo's working tree, MIR dump (content-hash cached), engine construction."""
import hashlib
import os
import shutil
import subprocess
import sys
import time

from . import mir
from .types import TypeEnv
from .engine import Engine
from . import stdmodels
from . import stdmodels2          # noqa: F401  (registers the second tier of models)

VERIF = os.path.dirname(os.path.dirname(os.path.abspath(__file__)))
REPO = os.environ.get('VERIF_REPO', '/repo')
WORK = os.path.join(VERIF, '.work')
COPY_ITEMS = ['Cargo.toml', 'Cargo.lock', 'README.md', 'src', 'examples', 'benches']
MIR_FLAGS = ['-Zunpretty=mir', '-C', 'debug-assertions=on', '-C', 'overflow-checks=on',
             '-Zmir-enable-passes=-CheckAlignment,-CheckNull']


class Inconclusive(Exception):
    pass


def tree_hash(root=REPO):
    h = hashlib.sha256()
    for item in COPY_ITEMS:
        p = os.path.join(root, item)
        if os.path.isfile(p):
            h.update(item.encode())
            h.update(open(p, 'rb').read())
        elif os.path.isdir(p):
            for d, dirs, files in sorted(os.walk(p)):
                dirs.sort()
                for f in sorted(files):
                    fp = os.path.join(d, f)
                    h.update(os.path.relpath(fp, root).encode())
                    h.update(open(fp, 'rb').read())
    h.update(' '.join(MIR_FLAGS).encode())
    return h.hexdigest()[:24]


def env_offline():
    e = dict(os.environ)
    e['CARGO_NET_OFFLINE'] = 'true'
    e.pop('RUSTFLAGS', None)
    return e


def prepare():
    """-> dict(hash, dir, mir_path, crate_dir); builds the cache entry for the current tree if missing"""
    hv = tree_hash()
    cdir = os.path.join(WORK, 'cache', hv)
    mir_path = os.path.join(cdir, 'mir.txt')
    crate = os.path.join(cdir, 'crate')
    if not os.path.exists(mir_path):
        tmp = cdir + '.tmp%d' % os.getpid()
        shutil.rmtree(tmp, ignore_errors=True)
        os.makedirs(os.path.join(tmp, 'crate'))
        for item in COPY_ITEMS:
            p = os.path.join(REPO, item)
            if os.path.isdir(p):
                shutil.copytree(p, os.path.join(tmp, 'crate', item))
            elif os.path.isfile(p):
                shutil.copy(p, os.path.join(tmp, 'crate', item))
        t = time.time()
        r = subprocess.run(['cargo', '+nightly', 'rustc', '--offline', '--lib', '--'] + MIR_FLAGS,
                           cwd=os.path.join(tmp, 'crate'), env=dict(env_offline(), CARGO_TARGET_DIR=os.path.join(WORK, 'target-mir')),
                           stdout=subprocess.PIPE, stderr=subprocess.PIPE)
        if r.returncode != 0 or not r.stdout.strip():
            shutil.rmtree(tmp, ignore_errors=True)
            raise Inconclusive('MIR dump failed (exit %d): %s' % (r.returncode, r.stderr.decode(errors='replace')[-600:]))
        open(os.path.join(tmp, 'mir.txt'), 'wb').write(r.stdout)
        open(os.path.join(tmp, 'mir.time'), 'w').write('%.1f' % (time.time() - t))
        try:
            os.rename(tmp, cdir)
        except OSError:
            shutil.rmtree(tmp, ignore_errors=True)      # another check won the race
        gc_cache(keep=hv)
    return {'hash': hv, 'dir': cdir, 'mir_path': mir_path, 'crate_dir': crate}


def gc_cache(keep, max_entries=4):
    root = os.path.join(WORK, 'cache')
    try:
        ents = [e for e in os.listdir(root) if e != keep and '.tmp' not in e]
    except OSError:
        return
    ents.sort(key=lambda e: os.path.getmtime(os.path.join(root, e)))
    for e in ents[:max(0, len(ents) - (max_entries - 1))]:
        shutil.rmtree(os.path.join(root, e), ignore_errors=True)


_PINS_OK = [None]


def load(caps=None, default_cap=2, ws=None):
    ws = ws or prepare()
    if _PINS_OK[0] is None:
        from . import pins
        _PINS_OK[0] = pins.check()
    if _PINS_OK[0]:
        raise Inconclusive('std model out of date: the pinned rust-src items changed: ' + ', '.join(_PINS_OK[0][:4]))
    text = open(ws['mir_path']).read()
    bodies, consts = mir.parse(text)
    sources = {}
    srcdir = os.path.join(ws['crate_dir'], 'src')
    for f in sorted(os.listdir(srcdir)):
        if f.endswith('.rs'):
            sources['src/' + f] = open(os.path.join(srcdir, f)).read().split('\n')
    tenv = TypeEnv(['\n'.join(v) for v in sources.values()], caps=caps, default_cap=default_cap)
    eng = Engine(bodies, consts, tenv, sources)
    stdmodels.install(eng)
    eng.ws = ws
    return eng
