"""C15 - set-algebra identities hold across compositions of intersect and difference."""
import itertools
import z3
from ..engine import AND, OR, NOT
from ..values import is_variant, payload, ite
from .. import replay as rp
from .setops import premise_group, bits_for, fnr, built
from . import c07, c08

BOUNDS = {'quick': {'composition depth': 2, 'alternatives per leaf': '1 (direct instances); 1..2 for the inductive step', 'result capacity': 8},
          'thorough': {'composition depth': '2 and 3', 'alternatives per leaf': 'one leaf with 2, the others 1 (depth 2); 1 (depth 3)', 'result capacity': 12}}
OUTSIDE = ['deeper compositions rely on the inductive step (pointwise exactness of both operations + closure of the representation invariant, re-discharged here)',
           '"printable, re-parsable" is replaced by closure of the representation invariant (Display/parse are C13: not applicable); replays rebuild operands from text']
ASSUMPTIONS = ['rank mode is sound given C04', 'None is read as the empty set; an operation on an empty operand is skipped the way a caller has to (None.intersect(x) = None, x.difference(None) = x)']

IDENTITIES = [
    ('associative: (A∩B)∩C ≡ A∩(B∩C)', ('and', ('and', 'A', 'B'), 'C'), ('and', 'A', ('and', 'B', 'C'))),
    ('(A\\B)∩B ≡ ∅', ('and', ('minus', 'A', 'B'), 'B'), None),
    ('A\\(A\\B) ≡ A∩B', ('minus', 'A', ('minus', 'A', 'B')), ('and', 'A', 'B')),
    ('(A\\B)\\C ≡ (A\\C)\\B', ('minus', ('minus', 'A', 'B'), 'C'), ('minus', ('minus', 'A', 'C'), 'B')),
    ('A\\(B∩C) ≡ (A\\B) ∪ (A\\C)', ('minus', 'A', ('and', 'B', 'C')), ('or', ('minus', 'A', 'B'), ('minus', 'A', 'C'))),
    ('A∩(B\\C) ≡ (A∩B)\\C', ('and', 'A', ('minus', 'B', 'C')), ('minus', ('and', 'A', 'B'), 'C')),
]
DEPTH3 = [
    ('((A∩B)\\C)∩A ≡ (A∩B)\\C', ('and', ('minus', ('and', 'A', 'B'), 'C'), 'A'), ('minus', ('and', 'A', 'B'), 'C')),
    ('(A\\(B\\C))∩C ≡ A∩C  ∖ nothing: (A\\(B\\C))∩C ≡ A∩C', ('and', ('minus', 'A', ('minus', 'B', 'C')), 'C'), ('and', 'A', 'C')),
]


def groups(tier):
    gs = []
    sizes = [(1, 1, 1)] if tier == 'quick' else [(1, 1, 1), (2, 1, 1), (1, 2, 1), (1, 1, 2)]
    for sz in sizes:
        gs.append({'name': 'depth2-%dx%dx%d' % sz, 'fn': comp_group, 'args': {'sizes': sz, 'idents': 'depth2', 'cap': 8 if tier == 'quick' else 12}})
    if tier != 'quick':
        for sz in [(1, 1, 1)]:
            gs.append({'name': 'depth3-%dx%dx%d' % sz, 'fn': comp_group, 'args': {'sizes': sz, 'idents': 'depth3', 'cap': 12}})
    # inductive step (same obligations as C07/C08 rank groups: exactness + closure of the representation invariant)
    K = 2
    for ka in range(1, K + 1):
        for kb in range(1, K + 1):
            gs.append({'name': 'step-intersect-%dx%d' % (ka, kb), 'fn': c07.rank_group, 'args': {'ka': ka, 'kb': kb}})
            gs.append({'name': 'step-difference-%dx%d' % (ka, kb), 'fn': c08.rank_group, 'args': {'ka': ka, 'kb': kb}})
    gs.append(premise_group(tier))
    return gs


def steps_of(e, prog, memo):
    """native program for an expression; returns the id holding Option<Range>"""
    if isinstance(e, str):
        return e
    key = repr(e)
    if key in memo:
        return memo[key]
    a, b = steps_of(e[1], prog, memo), steps_of(e[2], prog, memo)
    idn = 'x%d' % len(memo)
    memo[key] = idn
    prog.append({'id': idn, 'op': {'and': 'intersect', 'minus': 'difference', 'or': 'or'}[e[0]], 'a': a, 'b': b})
    return idn


def native_sat(native, prog, e, memo):
    """satisfies(v) of an expression from the native results, with None = empty and the skip rules for empty operands"""
    if e is None:
        return False
    if isinstance(e, str):
        return bool(native['s' + e])
    a, b = native_sat(native, prog, e[1], memo), native_sat(native, prog, e[2], memo)
    if e[0] == 'or':
        return a or b
    idn = memo[repr(e)]
    r = native.get(idn)
    if r is None:                      # an operand was None natively: apply the skip rule
        if e[0] == 'and':
            return False
        return a                       # x.difference(None) = x ; None.difference(y) = None (a is False then)
    if not r.get('some'):
        return False
    return bool(native['s' + idn])


def comp_group(s, sizes, idents, cap):
    ka, kb, kc = sizes
    h = s.harness(L=1, cap_bs=cap, rank_bits=bits_for(2 * (ka + kb + kc) + 1))
    leaves = {}
    for nm, k in (('A', ka), ('B', kb), ('C', kc)):
        leaves[nm] = h.range_(nm, k, allow_any=True)[0]
    v = h.version('v')
    fi, fd = fnr(h, 'intersect'), fnr(h, 'difference')
    cache = {}
    n0 = len(h.eng.sink.panics)

    def ev(e):
        """-> (nonempty-flag, Range value); 'or' nodes return a list of such pairs"""
        if isinstance(e, str):
            return [(z3.BoolVal(True), leaves[e])]
        key = repr(e)
        if key in cache:
            return cache[key]
        if e[0] == 'or':
            r = ev(e[1]) + ev(e[2])
        else:
            (s1, r1), = ev(e[1])
            (s2, r2), = ev(e[2])
            if e[0] == 'and':
                o = h.call(fi, r1, r2, pc=AND(s1, s2))
                r = [(AND(s1, s2, is_variant(o, 'Some')), payload(o, 'Some')[0])]
            else:
                o = h.call(fd, r1, r2, pc=AND(s1, s2))
                r = [(AND(s1, OR(NOT(s2), is_variant(o, 'Some'))), ite(s2, payload(o, 'Some')[0], r1))]
        cache[key] = r
        return r

    def adm(e):
        if e is None:
            return z3.BoolVal(False)
        return OR(*[AND(sm, h.adm(r, v)) for sm, r in ev(e)])

    def dec(m):
        return {'A': h.dec_range(m, leaves['A']), 'B': h.dec_range(m, leaves['B']), 'C': h.dec_range(m, leaves['C']), 'v': h.dec_version(m, v)}

    def mk_judge(lhs, rhs, name):
        def replay(case):
            names = rp.tok_names(case)
            prog = [rp.range_step(k, case[k], names) for k in ('A', 'B', 'C')] + [rp.version_step('v', case['v'], names)]
            memo = {}
            for e in (lhs, rhs):
                if e is not None:
                    steps_of(e, prog, memo)
            base = list(prog)
            for st in base:
                if st['op'] in ('range', 'intersect', 'difference'):
                    prog.append({'id': 's' + st['id'], 'op': 'satisfies', 'r': st['id'], 'v': 'v'})

            def judge(native):
                ok, why = built(native, prog)
                if not ok:
                    return 'unconstructible', why
                for k, val in native.items():
                    if 'panic' in str(val):
                        return 'confirmed', '%s: step %s panicked: %s' % (name, k, val)
                l, r = native_sat(native, prog, lhs, memo), native_sat(native, prog, rhs, memo)
                txt = '%s with A=%s B=%s C=%s v=%s: left side satisfied=%s, right side satisfied=%s' % (
                    name, prog[0]['text'], prog[1]['text'], prog[2]['text'], rp.version_text(case['v'], names), l, r)
                return ('confirmed' if l != r else 'mismatch'), txt
            return prog, judge
        return replay

    table = IDENTITIES if idents == 'depth2' else DEPTH3
    for name, lhs, rhs in table:
        if max(sizes) > 1 and name.startswith('(A\\B)\\C'):
            continue            # two nested differences on both sides: beyond the 30 min cap for 2-alternative leaves (measured); kept for 1x1x1
        s.prove(h, name + ' on admitted versions', [], adm(lhs) == adm(rhs), decode=dec, replay=mk_judge(lhs, rhs, name))
    # closure of the representation invariant and non-emptiness of Some at every intermediate result
    ri = []
    for key, lst in cache.items():
        for sm, r in lst:
            vec = r.fs[0]
            for i in range(vec.ty.cap):
                if vec.slots[i] is not None:
                    ri.append(z3.Implies(AND(sm, z3.UGT(vec.len, i)), h.ri_bs(vec.slots[i])))
    first = table[0]
    s.prove(h, 'every intermediate and final result keeps the representation invariant', [], AND(*ri) if ri else z3.BoolVal(True), decode=dec, replay=mk_judge(first[1], first[2], 'RI closure'))
    pan = [c for _, _, c in h.panics_since(n0)]
    s.unreachable(h, 'no panic in any composed operation', [], pan, decode=dec, replay=mk_judge(first[1], first[2], 'panic'))
    s.cover(h, 'a version admitted by (A\\B)\\C', [adm(('minus', ('minus', 'A', 'B'), 'C'))] if idents == 'depth2' else [adm(table[0][1])])
    s.bounds_ok(h, 'compositions', [])
