"""C17 - parse errors report the original input, an in-range offset and the right kind (error construction code)."""
import re
import z3
from ..engine import AND, OR, NOT, Clo, Ref
from ..types import STRSLICE
from ..values import Opq, is_variant, payload, St, Sc, bv, mk_variant, fresh
from .. import replay as rp
from .. import stubs

MAX_LENGTH = 256
BOUNDS = {'strings': 'abstract: (allocation, offset, length) with arbitrary 64-bit lengths; the grammar is a contract stub', 'corpus': 'the rejected strings below are replayed natively on every run'}
OUTSIDE = ['which string triggers which error (decided inside winnow: not encodable)', 'location() (line/column), miette rendering, char-boundary of the offset (spot-checked natively on the corpus only)']
ASSUMPTIONS = ['the helper last_char_offset(&str) returns the start of the last character (contract stub; str::char_indices is std code over bytes, checked natively on the corpus)',
               'winnow stream discipline: when `grammar.parse_next(&mut input)` fails, `input` is a suffix of the original slice and the error carries a suffix of the original at or after it',
               'winnow never returns ErrMode::Incomplete for a complete (&str) stream',
               'a String is identified with the slice it was copied from (same allocation, offset, length)']
CORPUS_V = ['1.2.900719925474100', '1.2.', 'foo', '1.2.3.4.5.6' * 0 + '1.', '', 'v', '1.2.x', ' 1.2.99999999999999999999999', 'é1.2.3', '1.2.3\n4.x', '1' * 300, 'a' * 257, '1.2.3-é', '1.2.3-' + 'a' * 255 + 'é', '1.0.0-' + 'a' * 260 + '\nb']
# (text, expected offset of the rejected component, expected kind prefix): the component is not at the end of the string
ACCEPTED = ['900719925474099.900719925474099.900719925474099', '0.0.0', '1.2.3-900719925474100', '1.2.3-' + 'a' * 250]      # the numeric bound itself and a string of exactly MAX_LENGTH bytes are accepted; identifiers are not bounded
NUMBER_CASES = [('900719925474100.1.1', 0, 'MaxIntError(900719925474100)'), ('1.900719925474100.1', 2, 'MaxIntError(900719925474100)'), ('1.2.900719925474100-rc.1', 4, 'MaxIntError(900719925474100)'),
                ('1.2.99999999999999999999+build', 4, 'ParseIntError'), ('v 12.99999999999999999999.3', 5, 'ParseIntError'), ('99999999999999999999.0.0', 0, 'ParseIntError'),
                # the two sides of 2^64 (seed C17-i: a hand-written digit fold that overflows for exactly ..616 to ..619)
                ('1.2.18446744073709551616', 4, 'ParseIntError'), ('18446744073709551619.0.0', 0, 'ParseIntError'), ('1.18446744073709551617.0-rc', 2, 'ParseIntError'),
                ('1.18446744073709551615.0', 2, 'MaxIntError(18446744073709551615)'), ('1.2.18446744073709551620', 4, 'ParseIntError')]
CORPUS_R = ['foo', '', '>=1.2.3 <1.0.0', 'é', '~1.y', '>', '1.2.900719925474100', '^1.2.99999999999999999999999', 'foo || bar', '1' * 300]


def groups(tier):
    return [{'name': 'version-parse', 'fn': parse_group, 'args': {'which': 'Version'}},
            {'name': 'range-parse', 'fn': parse_group, 'args': {'which': 'Range'}},
            {'name': 'number', 'fn': number_group, 'args': {}},
            {'name': 'number-content', 'fn': number_group, 'args': {'content': True}},
            {'name': 'corpus', 'fn': corpus_group, 'args': {}}]


def install_grammar_stub(h, which):
    """`<fn {version|range_set} as Parser>::parse_next(&mut f, &mut input)` under the contract of DESIGN.md 3.6"""
    e = h.eng
    log = {}

    def grammar(eng, callee, args, dest_ts, st, where):
        r_in = args[1]
        orig = eng.read_ref(st, r_in)
        wf = []
        res = fresh(eng.ty(dest_ts), 'grammar', wf)
        adv = fresh(STRSLICE, 'input_after', wf)
        end = orig.fs[1].t + orig.fs[2].t
        # input afterwards: a suffix of the original slice
        wf += [adv.fs[0].t == orig.fs[0].t, z3.UGE(adv.fs[1].t, orig.fs[1].t), z3.ULE(adv.fs[1].t, end), adv.fs[1].t + adv.fs[2].t == end]
        em = payload(res, 'Err')[0]
        wf.append(z3.Implies(is_variant(res, 'Err'), NOT(is_variant(em, 'Incomplete'))))
        for vn in ('Backtrack', 'Cut'):
            pe = payload(em, vn)[0]
            ei = pe.fs[pe.ty.index('input')]
            wf += [ei.fs[0].t == orig.fs[0].t, z3.UGE(ei.fs[1].t, adv.fs[1].t), z3.ULE(ei.fs[1].t, end), ei.fs[1].t + ei.fs[2].t == end]
        eng.assume(wf)
        h.wf += wf
        eng.write_ref(st, r_in, lambda old: adv)
        log['res'], log['adv'], log['orig'] = res, adv, orig
        return res
    e.stubs.append((re.compile(r'^<for<.*\{(version|range_set)\} as Parser<.*>>::parse_next$', re.S), grammar))

    def last_char(eng, callee, args, dest_ts, st, where):
        # contract of the crate's helper `last_char_offset(&str)` (str::char_indices is not encoded): the byte offset at
        # which the last character starts: 0 for the empty string, otherwise in [len-4, len-1]; checked natively on the corpus
        sl = args[0] if not isinstance(args[0], Ref) else eng.read_ref(st, args[0])
        k = z3.BitVec('last_char_offset!%d' % len(h.wf), 64)
        ln = sl.fs[2].t
        c = [z3.If(ln == 0, k == 0, AND(z3.ULT(k, ln), z3.UGE(k + 4, ln)))]
        eng.assume(c)
        h.wf += c
        return Sc(k)
    e.stubs.append((re.compile(r'^last_char_offset$'), last_char))
    return log


def parse_group(s, which):
    h = s.harness(L=1, cap_bs=2)
    e = h.eng
    e.tenv.string_as_slice = True
    e.tenv.cache.clear()
    log = install_grammar_stub(h, which)
    f = h.fn(which, None, 'parse')
    e.always_inline.add(f.name)
    inp = fresh(STRSLICE, 'input')
    # a valid slice: does not wrap around the address space
    from ..stdmodels import STR_BASE
    h.wf += [z3.ULE(inp.fs[2].t, 1 << 40), z3.ULE(inp.fs[1].t, 1 << 40), z3.ULE(STR_BASE, 1 << 62)]
    n0 = len(e.sink.panics)
    r = h.call(f, inp)
    pan = h.panics_since(n0)
    err = payload(r, 'Err')[0]
    iserr = is_variant(r, 'Err')
    ein, espan, ekind = err.fs[err.ty.index('input')], err.fs[err.ty.index('span')], err.fs[err.ty.index('kind')]
    same = lambda a, b: AND(a.fs[0].t == b.fs[0].t, a.fs[1].t == b.fs[1].t, a.fs[2].t == b.fs[2].t)
    res, adv = log.get('res'), log.get('adv')
    too_long = z3.UGT(inp.fs[2].t, MAX_LENGTH) if which == 'Version' else z3.BoolVal(False)
    gerr = payload(res, 'Err')[0]
    which_e = lambda vn: payload(gerr, vn)[0]
    pe = lambda vn, fld: which_e(vn).fs[which_e(vn).ty.index(fld)]

    def dec(m):
        ev = lambda t: m.eval(t, model_completion=True).as_long()
        return {'which': which, 'len': ev(inp.fs[2].t), 'advanced_by': ev(adv.fs[1].t) - ev(inp.fs[1].t), 'error_input_len': ev(ein.fs[2].t), 'offset': ev(espan.fs[0].t)}

    def replay(case):
        corpus = CORPUS_V if which == 'Version' else CORPUS_R
        prog = [{'id': 'e%d' % i, 'op': 'version' if which == 'Version' else 'range', 'text': t} for i, t in enumerate(corpus)]
        acc = ACCEPTED if which == 'Version' else []
        prog += [{'id': 'ok%d' % i, 'op': 'version', 'text': t} for i, t in enumerate(acc)]

        def judge(native):
            bad = ['%s::parse(%r...) of %d bytes rejected: %s' % (which, t[:20], len(t), (native.get('ok%d' % i) or {}).get('kind')) for i, t in enumerate(acc) if (native.get('ok%d' % i) or {}).get('ok') is not True]
            for i, t in enumerate(corpus):
                x = native.get('e%d' % i) or {}
                if x.get('ok') is False:
                    if x.get('input') != t or not (0 <= x.get('offset', -1) <= len(t.encode())) or x.get('location') == 'PANIC':
                        bad.append('%s::parse(%r): input()=%r offset()=%r location()=%r kind=%s' % (which, t[:40], (x.get('input') or '')[:40], x.get('offset'), x.get('location'), x.get('kind')))
            return ('confirmed' if bad else 'mismatch'), '; '.join(bad[:3]) or 'no corpus string shows the abstract counterexample (advance %s)' % case.get('advanced_by')
        return prog, judge
    s.cover(h, 'error after the grammar consumed part of the input', [iserr, NOT(too_long), adv.fs[1].t != inp.fs[1].t])
    s.prove(h, '%s::parse: on every Err the reported input is the string that was passed in' % which, [iserr], same(ein, inp), decode=dec, replay=replay)
    s.prove(h, '%s::parse: the offset is the position of the failing slice inside the original and lies within it' % which, [iserr, NOT(too_long)],
            AND(z3.ULE(espan.fs[0].t, inp.fs[2].t),
                z3.Implies(is_variant(gerr, 'Backtrack'), espan.fs[0].t == pe('Backtrack', 'input').fs[1].t - inp.fs[1].t),
                z3.Implies(is_variant(gerr, 'Cut'), espan.fs[0].t == pe('Cut', 'input').fs[1].t - inp.fs[1].t)), decode=dec, replay=replay)
    if which == 'Version':
        s.prove(h, 'Version::parse: longer than MAX_LENGTH => MaxLengthError positioned at the last character (within its 4 bytes), grammar not consulted', [too_long],
                AND(iserr, is_variant(ekind, 'MaxLengthError'), z3.ULT(espan.fs[0].t, inp.fs[2].t), z3.UGE(espan.fs[0].t + 4, inp.fs[2].t)), decode=dec, replay=replay)
    for vn in ('Backtrack', 'Cut'):
        k, c = pe(vn, 'kind'), pe(vn, 'context')
        want = AND(z3.Implies(is_variant(k, 'Some'), AND(ekind.tag == payload(k, 'Some')[0].tag,
                                                        z3.Implies(is_variant(payload(k, 'Some')[0], 'MaxIntError'), payload(ekind, 'MaxIntError')[0].t == payload(payload(k, 'Some')[0], 'MaxIntError')[0].t))),
                   z3.Implies(AND(is_variant(k, 'None'), is_variant(c, 'Some')), is_variant(ekind, 'Context')),
                   z3.Implies(AND(is_variant(k, 'None'), is_variant(c, 'None')), is_variant(ekind, 'Other')))
        s.prove(h, '%s::parse: the kind raised inside the grammar (%s) is reported unchanged; otherwise Context / Other' % (which, vn),
                [iserr, NOT(too_long), is_variant(res, 'Err'), is_variant(gerr, vn)], want, decode=dec, replay=replay)
    s.prove(h, '%s::parse: Ok exactly when the grammar succeeds%s' % (which, ' and the length guard passes' if which == 'Version' else ''), [],
            NOT(iserr) == AND(NOT(too_long), is_variant(res, 'Ok')), decode=dec, replay=replay)
    s.unreachable(h, '%s::parse: no overflow / panic in error construction (pointer difference, len-1)' % which, [], [c for _, _, c in pan], decode=dec, replay=replay)


def number_group(s, content=False):
    """number::{closure#0}: the bound on components and the two integer error kinds.
    content=False: the digit slice is a position and str::parse::<u64> an arbitrary Result (any length).
    content=True: the digit slice has 1..CAP symbolic digits (no leading zero) and str::parse::<u64> is exact over them, so code that reads the digits itself is decided too."""
    h = s.harness(L=1, cap_bs=2)
    e = h.eng
    e.tenv.string_as_slice = True
    e.tenv.cache.clear()
    parsed = {}
    CAP = 24
    copied, raw = fresh(STRSLICE, 'copied'), fresh(STRSLICE, 'raw')
    if content:
        from ..values import Vc, Sc
        from ..types import TVec, INTS
        bs = [z3.BitVec('num.byte%d' % i, 8) for i in range(CAP)]
        ln = raw.fs[2].t
        h.wf += [z3.UGE(ln, 1), z3.ULE(ln, CAP), z3.Implies(z3.UGT(ln, 1), bs[0] != ord('0'))] + [AND(z3.UGE(b, ord('0')), z3.ULE(b, ord('9'))) for b in bs]
        cvec = Vc(TVec(INTS['u8'], CAP), ln, [Sc(b) for b in bs], CAP)
        e.str_content = lambda sv: cvec
        W = 96
        V = z3.BitVecVal(0, W)
        for i in range(CAP):
            V = z3.If(z3.UGT(ln, i), V * 10 + z3.ZeroExt(W - 8, bs[i] - ord('0')), V)
        fits = z3.ULT(V, z3.BitVecVal(2 ** 64, W))

    def str_parse(eng, callee, args, dest_ts, st, where):
        wf = []
        v = fresh(eng.ty(dest_ts), 'parse_u64', wf)
        eng.assume(wf)
        h.wf += wf
        if content:
            h.wf.append(is_variant(v, 'Ok') == fits)
            h.wf.append(z3.Implies(fits, payload(v, 'Ok')[0].t == z3.Extract(63, 0, V)))
        parsed['r'] = v
        return v
    e.stubs.append((re.compile(r'^core::str::<impl str>::parse::<u64>$'), str_parse))
    # the closure of `number` that receives the digit slice; its captured environment (possibly other closures) is rebuilt from the
    # types of the captures it reads, with every captured &str being the start-of-component slice `copied`
    cands = [b for nm, bl in e.bodies.items() for b in bl if re.search(r'(^|::)number::\{closure#\d+\}$', nm)
             and len(b.args) == 2 and re.match(r"^&(?:'\w+ )?str$", b.locals.get(b.args[1], ''))]

    def synth(body, depth=0):
        span = re.search(r'\{closure@([^}]*)\}', body.locals[body.args[0]]).group(1)
        caps = {}

        def walk(x):
            if isinstance(x, tuple):
                if len(x) == 4 and x[0] == 'field':
                    base = x[1]
                    while base[0] == 'deref':
                        base = base[1]
                    if base == ('local', body.args[0]):
                        caps[x[2]] = x[3]
                for y in x:
                    walk(y)
            elif isinstance(x, list):
                for y in x:
                    walk(y)
        for blk in body.blocks.values():
            walk(blk.stmts)
            walk(blk.term)
        vals = []
        for i in range(max(caps) + 1 if caps else 0):
            ty = caps.get(i)
            mm = re.search(r'\{closure@([^}]*)\}', ty or '')
            if ty is None:
                vals.append(Opq('capture not read'))
            elif mm and depth < 4:
                vals.append(synth(e.closure_body(mm.group(1)), depth + 1))
            elif re.match(r"^&(?:'\w+ )?(?:&(?:'\w+ )?)?str$", ty):
                vals.append(copied)
            else:
                vals.append(fresh(e.ty(ty), 'cap%d' % i))
        return Clo(span, vals)
    if not cands:
        s.add(ob='number: the closure receiving the digit slice found in the MIR', mode='syntactic', solver_s=0.0, kind='prove', verdict='inconclusive',
              detail='no closure of `number` taking &str: the integer step is not where the check expects it')
        return
    r = h.call(cands[0], synth(cands[0]), raw)
    if content:
        return number_content_obligations(s, h, e, r, copied, bs, ln, V, fits, CAP)
    pr = parsed.get('r')
    if pr is None:
        s.add(ob='number: str::parse::<u64> produces the component value', mode='syntactic', solver_s=0.0, kind='prove', verdict='inconclusive',
              detail='the digit-slice closure of `number` does not call str::parse::<u64>')
        return
    val = payload(pr, 'Ok')[0].t
    err = payload(r, 'Err')[0]
    kind = payload(err.fs[err.ty.index('kind')], 'Some')[0]
    kind_some = is_variant(err.fs[err.ty.index('kind')], 'Some')
    ein = err.fs[err.ty.index('input')]
    same = lambda a, b: AND(a.fs[0].t == b.fs[0].t, a.fs[1].t == b.fs[1].t, a.fs[2].t == b.fs[2].t)
    MAXS = 900719925474099

    def dec(m):
        return {'abstract': 'number::{closure#0} mispositions or misclassifies an integer error'}

    def replay(case):
        prog = [{'id': 'n%d' % i, 'op': 'version', 'text': t} for i, (t, _, _) in enumerate(NUMBER_CASES)]

        def judge(native):
            bad = []
            for i, (t, off, kind) in enumerate(NUMBER_CASES):
                x = native.get('n%d' % i) or {}
                if x.get('ok') is not False or x.get('offset') != off or not str(x.get('kind', '')).startswith(kind):
                    bad.append('Version::parse(%r): offset()=%r kind=%s (expected offset %d, %s)' % (t, x.get('offset'), x.get('kind'), off, kind))
            for i, t in enumerate(ACCEPTED):
                x = native.get('ok%d' % i) or {}
                if x.get('ok') is not True:
                    bad.append('Version::parse(%r) rejected: %s' % (t, x.get('kind')))
            return ('confirmed' if bad else 'mismatch'), '; '.join(bad[:3]) or 'no corpus string reproduces the abstract counterexample'
        prog += [{'id': 'ok%d' % i, 'op': 'version', 'text': t} for i, t in enumerate(ACCEPTED)]
        return prog, judge
    s.cover(h, 'value just above the bound', [is_variant(pr, 'Ok'), val == MAXS + 1])
    s.prove(h, 'number: Ok(n) only for n <= MAX_SAFE_INTEGER, and then n is the parsed value', [is_variant(r, 'Ok')], AND(is_variant(pr, 'Ok'), payload(r, 'Ok')[0].t == val, z3.ULE(val, MAXS)))
    s.prove(h, 'number: every parsed value up to and including MAX_SAFE_INTEGER is accepted unchanged', [is_variant(pr, 'Ok'), z3.ULE(val, MAXS)],
            AND(is_variant(r, 'Ok'), payload(r, 'Ok')[0].t == val), decode=dec, replay=replay)
    s.prove(h, 'number: a value above MAX_SAFE_INTEGER => MaxIntError(value) positioned at the start of the component', [is_variant(pr, 'Ok'), z3.UGT(val, MAXS)],
            AND(is_variant(r, 'Err'), kind_some, is_variant(kind, 'MaxIntError'), payload(kind, 'MaxIntError')[0].t == val, same(ein, copied)), decode=dec, replay=replay)
    s.prove(h, 'number: u64 overflow (str::parse fails) => ParseIntError positioned at the start of the component', [is_variant(pr, 'Err')],
            AND(is_variant(r, 'Err'), kind_some, is_variant(kind, 'ParseIntError'), same(ein, copied)), decode=dec, replay=replay)


def number_content_obligations(s, h, e, r, copied, bs, ln, V, fits, CAP):
    MAXS = 900719925474099
    W = V.size()
    err = payload(r, 'Err')[0]
    kind = payload(err.fs[err.ty.index('kind')], 'Some')[0]
    kind_some = is_variant(err.fs[err.ty.index('kind')], 'Some')
    ein = err.fs[err.ty.index('input')]
    same = lambda a, b: AND(a.fs[0].t == b.fs[0].t, a.fs[1].t == b.fs[1].t, a.fs[2].t == b.fs[2].t)
    small = z3.ULE(V, z3.BitVecVal(MAXS, W))

    def dec(m):
        n = m.eval(ln, model_completion=True).as_long()
        return {'text': ''.join(chr(m.eval(bs[i], model_completion=True).as_long()) for i in range(min(n, CAP)))}

    def replay(case):
        t = case['text']
        prog = [{'id': 'n', 'op': 'version', 'text': '1.2.' + t}]

        def judge(native):
            x = native.get('n') or {}
            v = int(t)
            if x.get('panic'):
                return 'confirmed', 'Version::parse(%r) panicked: %s' % ('1.2.' + t, x.get('panic'))
            if v <= MAXS:
                bad = x.get('ok') is not True or ((x.get('v') or {}).get('patch', v) != v)
            else:
                want = 'MaxIntError(%d)' % v if v < 2 ** 64 else 'ParseIntError'
                bad = x.get('ok') is not False or x.get('offset') != 4 or not str(x.get('kind', '')).startswith(want)
            return ('confirmed' if bad else 'mismatch'), 'Version::parse(%r): ok=%r offset=%r kind=%s' % ('1.2.' + t, x.get('ok'), x.get('offset'), x.get('kind'))
        return prog, judge
    pan = [c for _, _, c in e.sink.panics]
    s.unreachable(h, 'number: no panic or overflow on any component of up to %d digits' % CAP, [], pan, decode=dec, replay=replay)
    s.bounds_ok(h, 'number on digit content', [])
    s.cover(h, 'a component of 20 digits that fits u64', [fits, ln == 20])
    s.prove(h, 'number (digits): a component up to MAX_SAFE_INTEGER is accepted with its decimal value', [small],
            AND(is_variant(r, 'Ok'), payload(r, 'Ok')[0].t == z3.Extract(63, 0, V)), decode=dec, replay=replay)
    s.prove(h, 'number (digits): above MAX_SAFE_INTEGER but below 2^64 => MaxIntError(value) at the start of the component', [NOT(small), fits],
            AND(is_variant(r, 'Err'), kind_some, is_variant(kind, 'MaxIntError'), payload(kind, 'MaxIntError')[0].t == z3.Extract(63, 0, V), same(ein, copied)), decode=dec, replay=replay)
    s.prove(h, 'number (digits): 2^64 and above => ParseIntError at the start of the component', [NOT(fits)],
            AND(is_variant(r, 'Err'), kind_some, is_variant(kind, 'ParseIntError'), same(ein, copied)), decode=dec, replay=replay)


def corpus_group(s):
    """native spot check of everything the encoding cannot see: location(), diagnostics, kinds of concrete strings"""
    prog = []
    for i, t in enumerate(CORPUS_V):
        prog += [{'id': 'v%d' % i, 'op': 'version', 'text': t}, {'id': 'vr%d' % i, 'op': 'render', 'x': 'v%d!err' % i}]
    for i, t in enumerate(CORPUS_R):
        prog += [{'id': 'r%d' % i, 'op': 'range', 'text': t}, {'id': 'rr%d' % i, 'op': 'render', 'x': 'r%d!err' % i}]
    native = rp.run(s.binary, [prog])[0]
    bad = []
    expect_kind = {'1.2.900719925474100': 'MaxIntError(900719925474100)', '1' * 300: 'MaxLengthError', 'a' * 257: 'MaxLengthError'}
    n = 0
    for pre, corpus in (('v', CORPUS_V), ('r', CORPUS_R)):
        for i, t in enumerate(corpus):
            x = native.get('%s%d' % (pre, i)) or {}
            if x.get('ok') is not False:
                continue
            n += 1
            probs = []
            if x.get('input') != t:
                probs.append('input()=%r' % (x.get('input') or '')[:30])
            off = x.get('offset', -1)
            if not (0 <= off <= len(t.encode())):
                probs.append('offset()=%r' % off)
            else:
                try:
                    t.encode()[:off].decode()
                except UnicodeDecodeError:
                    probs.append('offset %d is not a character boundary' % off)
            if x.get('location') == 'PANIC' or 'panic' in str(native.get('%sr%d' % (pre, i))):
                probs.append('location()/render panicked')
            elif isinstance(x.get('location'), list) and not probs:
                line = t.encode()[:off].count(b'\n')
                col = off - (t.encode()[:off].rfind(b'\n') + 1)
                if x['location'] != [line, col]:
                    probs.append('location()=%r expected %r' % (x['location'], [line, col]))
            if pre == 'v' and t in expect_kind and x.get('kind') != expect_kind[t]:
                probs.append('kind=%s expected %s' % (x.get('kind'), expect_kind[t]))
            if probs:
                bad.append('%s::parse(%r): %s' % ('Version' if pre == 'v' else 'Range', t[:30], ', '.join(probs)))
    prog2 = [{'id': 'n%d' % i, 'op': 'version', 'text': t} for i, (t, _, _) in enumerate(NUMBER_CASES)] + [{'id': 'ok%d' % i, 'op': 'version', 'text': t} for i, t in enumerate(ACCEPTED)]
    nat2 = rp.run(s.binary, [prog2])[0]
    for i, t in enumerate(ACCEPTED):
        n += 1
        if (nat2.get('ok%d' % i) or {}).get('ok') is not True:
            bad.append('Version::parse(%r...) of %d bytes rejected: %s' % (t[:20], len(t), (nat2.get('ok%d' % i) or {}).get('kind')))
    for i, (t, off, kind) in enumerate(NUMBER_CASES):
        x = nat2.get('n%d' % i) or {}
        n += 1
        if x.get('ok') is not False or x.get('offset') != off or not str(x.get('kind', '')).startswith(kind) or x.get('input') != t:
            bad.append('Version::parse(%r): offset()=%r kind=%s input()=%r (expected offset %d, %s)' % (t, x.get('offset'), x.get('kind'), (x.get('input') or '')[:20], off, kind))
    s.validated += n
    s.add(ob='corpus of rejected strings: input(), offset(), location(), kind, diagnostic rendering (native spot check, %d errors)' % n, mode='native', solver_s=0.0, kind='prove',
          verdict='violated' if bad else 'holds', detail='; '.join(bad[:4]), case={'corpus': n}, program=prog if bad else None, native=None)
