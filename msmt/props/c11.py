"""C11 - min_version returns the least version satisfying the range, or None if none."""
import z3
from ..engine import AND, OR, NOT
from ..values import is_variant, payload
from .. import replay as rp
from .. import oracles as O
from .setops import fnr, built

from ..validate import validation_group
BOUNDS = {'quick': {'alternatives': '1..2', 'identifier lists of the inputs': '<= 1 with 1..2 alternatives, <= 2 with one alternative (the result may carry one more)', 'components': 'full u64 <= MAX_SAFE_INTEGER', 'mode': 'concrete order'},
          'thorough': {'alternatives': '1..4 (identifier lists <= 2 up to 2 alternatives, <= 1 beyond)', 'identifier lists of the inputs': '<= 2', 'components': 'same', 'mode': 'concrete order'}}
OUTSIDE = ['ranges with more alternatives / longer identifier lists than the bound', 'probe versions v with longer identifier lists than the bound + 1']
ASSUMPTIONS = ['O-sat as in C03 with the order [[Version::cmp]] (= O-order by C04)']


def groups(tier):
    K = 2 if tier == 'quick' else 4
    L = 1 if tier == 'quick' else 2
    gs = [{'name': 'min-K%d-L%d' % (k, L if k < 4 else 1), 'fn': min_group, 'args': {'k': k, 'L': L if k < 4 else 1}} for k in range(1, K + 1)]
    if tier == 'quick':
        # one alternative with identifier lists of up to 2 (seed C11-g: a step that only exists for dotted tags such as `alpha.1`)
        gs.append({'name': 'min-K1-L2', 'fn': min_group, 'args': {'k': 1, 'L': 2}})
    gs.append(validation_group(('min_version',), tier))
    return gs


def judge_min(case):
    names = rp.tok_names(case)
    prog = [rp.range_step('A', case['A'], names), rp.version_step('v', case['v'], names), {'id': 'm', 'op': 'min_version', 'r': 'A'},
            {'id': 'sv', 'op': 'satisfies', 'r': 'A', 'v': 'v'}, {'id': 'sm', 'op': 'satisfies', 'r': 'A', 'v': 'm'}, {'id': 'c', 'op': 'cmp', 'a': 'v', 'b': 'm'}]

    def judge(native):
        ok, why = built(native, prog)
        if not ok:
            return 'unconstructible', why
        m = native.get('m')
        if 'panic' in str(m):
            return 'confirmed', 'range=%s: min_version panicked: %s' % (prog[0]['text'], m)
        txt = 'range=%s: min_version=%s; it satisfies the range: %s; probe %s satisfies: %s, probe < min: %s' % (
            prog[0]['text'], (m.get('v') or {}).get('print') if m.get('some') else None, native.get('sm'), rp.version_text(case['v'], names),
            native['sv'], (native.get('c') or {}).get('lt'))
        if m.get('some'):
            bad = (native['sm'] is False) or (native['sv'] and native['c']['lt'])
        else:
            bad = native['sv']
        return ('confirmed' if bad else 'mismatch'), txt
    return prog, judge


def min_group(s, k, L):
    h = s.harness(L=L, cap_bs=max(k, 2))
    A, bss = h.range_('A', k, allow_any=True)
    v = h.version('v', max_pre=L + 1)
    n0 = len(h.eng.sink.panics)
    r = h.call(fnr(h, 'min_version'), A)
    pan = [c for _, _, c in h.panics_since(n0)]
    m = payload(r, 'Some')[0]
    some = is_variant(r, 'Some')
    dec = lambda mo: {'A': h.dec_range(mo, A), 'v': h.dec_version(mo, v)}
    s.cover(h, 'Some with a prerelease result', [some, h.is_pre(m)])
    s.cover(h, 'None reachable', [NOT(some)])
    s.prove(h, 'Some(m) => m satisfies the range', [], z3.Implies(some, h.sat(A, m)), decode=dec, replay=judge_min)
    s.prove(h, 'Some(m) => no lower version satisfies the range', [], z3.Implies(AND(some, h.lt(v, m)), NOT(h.sat(A, v))), decode=dec, replay=judge_min)
    s.prove(h, 'None => no version satisfies the range', [], z3.Implies(NOT(some), NOT(h.sat(A, v))), decode=dec, replay=judge_min)
    s.unreachable(h, 'no panic / overflow in min_version', [], pan, decode=dec, replay=judge_min)
    s.bounds_ok(h, 'min_version', [])
