"""C02 - space-joined comparators intersect; `||` alternatives unite (the crate's own fold / flatten code)."""
import z3
from ..engine import AND, OR, NOT, Clo
from ..types import TVec, STRSLICE
from ..values import is_variant, payload, Vc, St, Sc, bv, mk_variant, fresh
from .. import replay as rp
from .. import oracles as O
from .setops import premise_group, bits_for, fnr, built

BOUNDS = {'quick': {'comparators folded in one alternative': '1..3 (any of them possibly dropped as garbage)', 'alternatives flattened': '1..2, each empty or one interval (what the fold produces)'},
          'thorough': {'comparators folded in one alternative': '1..6', 'alternatives flattened': '1..5, each empty or one interval'}}
OUTSIDE = ['that the texts `a b` and `a || b` tokenise into these comparator lists (winnow `separated`, `space1`, `logical_or`: not encodable)',
           'hyphen ranges inside a space-joined list (excluded by the property)']
ASSUMPTIONS = ['each comparator is an arbitrary interval accepted by BoundSet::new or None (dropped token)', 'rank / hybrid mode sound given C04',
               'Iterator::{flatten, fold, collect} and Vec::{pop, push} models']


def groups(tier):
    N = 3 if tier == 'quick' else 6
    gs = []
    for n in range(1, N + 1):
        gs.append({'name': 'fold-%d' % n, 'fn': fold_group, 'args': {'n': n, 'hybrid': False}})
        gs.append({'name': 'fold-sat-%d' % n, 'fn': fold_group, 'args': {'n': n, 'hybrid': True}})
    for k in range(1, (2 if tier == 'quick' else 5) + 1):
        gs.append({'name': 'flatten-%d' % k, 'fn': flatten_group, 'args': {'k': k}})
        gs.append({'name': 'flatten-sat-%d' % k, 'fn': flatten_group, 'args': {'k': k, 'hybrid': True}})
    gs.append({'name': 'range_set', 'fn': range_set_group, 'args': {}})
    from .c01 import corpus_group
    gs.append({'name': 'native-corpus', 'fn': corpus_group, 'args': {'n': 400 if tier == 'quick' else 2500}})
    gs.append(premise_group(tier))
    return gs


def comp_texts(case, names):
    out = []
    for c in case['comps']:
        if c is None:
            out.append('foo')
        else:
            t = rp.bs_text(c, names)
            out.append('*' if t == '*any*' else t)
    return out


def judge_fold(case):
    names = rp.tok_names(case)
    texts = comp_texts(case, names)
    prog = [{'id': 'R', 'op': 'range', 'text': ' '.join(texts)}, rp.version_step('v', case['v'], names), {'id': 's', 'op': 'satisfies', 'r': 'R', 'v': 'v'}]
    for i, c in enumerate(case['comps']):
        if c is not None:
            prog.append({'id': 'c%d' % i, 'op': 'range', 'text': texts[i]})
            prog.append({'id': 's%d' % i, 'op': 'satisfies', 'r': 'c%d' % i, 'v': 'v'})

    def judge(native):
        for i, c in enumerate(case['comps']):
            if c is not None and not rp.constructed(native, 'c%d' % i, {'text': texts[i]}) and texts[i] != '*':
                return 'unconstructible', 'comparator %r printed back as %r' % (texts[i], native.get('c%d' % i))
        v = O.raw_version(case['v'], names)
        present = [O.raw_range([c], names)[0] for c in case['comps'] if c is not None]
        R = native.get('R') or {}
        txt = 'text=%r version=%s: parsed to %s, satisfies=%s' % (prog[0]['text'], rp.version_text(case['v'], names), R.get('print', R.get('kind')), native.get('s'))
        if not present:
            return ('mismatch' if not R.get('ok') else 'confirmed'), txt
        within_all = all(O.py_within(c, v) for c in present)
        want = within_all and (not v['pre'] or any(O.py_sat_bs(c, v) for c in present))
        got = bool(native.get('s')) if R.get('ok') else False
        txt += ' (each comparator alone: %s); expected %s' % ([native.get('s%d' % i) for i, c in enumerate(case['comps']) if c is not None], want)
        return ('confirmed' if got != want else 'mismatch'), txt
    return prog, judge


def fold_group(s, n, hybrid):
    h = s.harness(L=1, cap_bs=max(n, 2), rank_bits=bits_for(2 * n + 1), hybrid=hybrid, caps={'Option': n}, field_bits=(3 if hybrid and n >= 3 else 0))
    e = h.eng
    OB = e.ty('Option<range::BoundSet>')
    VT = e.ty('Vec<Option<range::BoundSet>>')
    comps, present = [], []
    for i in range(n):
        bs, _ = h.boundset('c%d' % i)
        lo, hi = h.lower_pred(bs), h.upper_pred(bs)
        h.wf.append(NOT(AND(lo.tag == 2, hi.tag == 2)))
        p = z3.Bool('present%d' % i)
        comps.append(bs)
        present.append(p)
    opts = [fresh_opt(OB, present[i], comps[i]) for i in range(n)]
    vec = Vc(VT, bv(n, 64), opts + [None] * (VT.cap - n), n)
    v = h.version('v')
    body = e.free_fns.get('range::range::{closure#0}') or e.free_fns.get('range::{closure#0}')
    clo_body = [b for nm, bl in e.bodies.items() for b in bl if nm.endswith('range::{closure#0}') and '::{closure#0}::{closure#0}' not in nm and 'range_set' not in nm]
    f = clo_body[0]
    n0 = len(e.sink.panics)
    res = h.call(f, Clo('fold-outer', []), vec)
    pan = [c for _, _, c in h.panics_since(n0)]
    rng = St(h.R, [res])

    def dec(m):
        return {'comps': [h.dec_bs(m, comps[i]) if z3.is_true(m.eval(present[i], model_completion=True)) else None for i in range(n)], 'v': h.dec_version(m, v)}
    anyp = OR(*present)
    all_within = AND(*[z3.Implies(present[i], h.within(comps[i], v)) for i in range(n)])
    if not hybrid:
        s.cover(h, 'empty overlap of two present comparators', [present[0]] + ([present[1], NOT(is_variant(h.call(h.fn('BoundSet', None, 'intersect'), comps[0], comps[1]), 'Some'))] if n > 1 else []))
        s.prove(h, 'bounds of the folded alternative admit v <=> some comparator is valid and every valid comparator admits v (never a union)', [],
                h.adm(rng, v) == AND(anyp, all_within), decode=dec, replay=judge_fold)
        s.prove(h, 'at most one interval per alternative, and none when every token was dropped', [], AND(z3.ULE(res.len, 1), z3.Implies(NOT(anyp), res.len == 0)), decode=dec, replay=judge_fold)
        s.unreachable(h, 'no panic in the fold', [], pan, decode=dec, replay=judge_fold)
    else:
        sat = h.call(fnr(h, 'satisfies'), rng, v).t
        some_sat = OR(*[AND(present[i], h.sat_bs(comps[i], v)) for i in range(n)])
        s.cover(h, 'prerelease satisfying the folded alternative', [sat, h.is_pre(v)])
        s.prove(h, 'release v satisfies `a b ...` <=> it satisfies every valid comparator', [NOT(h.is_pre(v))], sat == AND(anyp, all_within), decode=dec, replay=judge_fold)
        s.prove(h, 'prerelease v satisfies `a b ...` <=> within the bounds of all and satisfies at least one', [h.is_pre(v)], sat == AND(anyp, all_within, some_sat), decode=dec, replay=judge_fold)
    s.bounds_ok(h, 'fold of %d comparators' % n, [])


def fresh_opt(OB, present, bs):
    from ..values import En
    return En(OB, z3.If(present, bv(1, 8), bv(0, 8)), [[], [bs]])


def judge_flat(case):
    names = rp.tok_names(case)
    texts = [rp.range_text(a, names) for a in case['alts']]
    full = ' || '.join(t for t in texts if t)
    prog = [{'id': 'R', 'op': 'range', 'text': full}, rp.version_step('v', case['v'], names), {'id': 's', 'op': 'satisfies', 'r': 'R', 'v': 'v'}]
    for i, t in enumerate(texts):
        if t:
            prog += [{'id': 'a%d' % i, 'op': 'range', 'text': t}, {'id': 's%d' % i, 'op': 'satisfies', 'r': 'a%d' % i, 'v': 'v'}]

    def judge(native):
        parts = [native.get('s%d' % i) for i, t in enumerate(texts) if t]
        R = native.get('R') or {}
        txt = 'text=%r version=%s: satisfies=%s; alternatives alone: %s' % (full, rp.version_text(case['v'], names), native.get('s'), parts)
        if any(p is None for p in parts):
            return 'unconstructible', txt
        got = bool(native.get('s')) if R.get('ok') else False
        return ('confirmed' if got != any(parts) else 'mismatch'), txt
    return prog, judge


def flatten_group(s, k, hybrid=False):
    h = s.harness(L=1, cap_bs=2 * k, rank_bits=bits_for(4 * k + 1), caps={'Vec': k}, hybrid=hybrid, field_bits=(3 if hybrid and k >= 2 else 0))
    e = h.eng
    VV = e.ty('Vec<Vec<range::BoundSet>>')
    inner_t = VV.elem
    alts, lens = [], []
    for i in range(k):
        bss = [h.boundset('a%d_%d' % (i, j))[0] for j in range(2)]
        for b in bss:
            h.wf.append(NOT(AND(h.lower_pred(b).tag == 2, h.upper_pred(b).tag == 2)))      # the parser never yields the fully unbounded interval
        ln = z3.BitVec('alen%d' % i, 64)
        h.wf.append(z3.ULE(ln, 1))          # what `range` produces: at most one interval per alternative (fold obligation above)
        alts.append(Vc(inner_t, ln, bss + [None] * (inner_t.cap - 2), 2))
        lens.append(ln)
    vv = Vc(VV, bv(k, 64), alts + [None] * (VV.cap - k), k)
    v = h.version('v')
    f = [b for nm, bl in e.bodies.items() for b in bl if nm.endswith('bound_sets::{closure#0}')][0]
    res = h.call(f, Clo('flatten', []), vv)
    rng = St(h.R, [res])

    def dec(m):
        out = []
        for a in alts:
            n = m.eval(a.len, model_completion=True).as_long()
            out.append([h.dec_bs(m, a.slots[j]) for j in range(n)])
        return {'alts': out, 'v': h.dec_version(m, v)}
    if hybrid:
        got = h.call(fnr(h, 'satisfies'), rng, v).t
        want = OR(*[h.vec_exists(a, lambda bs: h.sat_bs(bs, v)) for a in alts])
        s.cover(h, 'a prerelease satisfying only the last alternative', [h.is_pre(v), got])
        s.prove(h, '`a || b`: satisfied by exactly the versions that satisfy a or b, prereleases included (%d alternatives)' % k, [], got == want, decode=dec, replay=judge_flat)
        s.bounds_ok(h, 'flatten', [])
        return
    want = OR(*[h.vec_exists(a, lambda bs: h.within(bs, v)) for a in alts])
    s.cover(h, 'an empty alternative next to a non-empty one', [lens[0] == 0] + ([lens[1] != 0] if k > 1 else []))
    s.prove(h, '`||` flattening: the union admits v <=> some alternative admits v (%d alternatives)' % k, [], h.adm(rng, v) == want, decode=dec, replay=judge_flat)
    s.bounds_ok(h, 'flatten', [])


def range_set_group(s):
    h = s.harness(L=1, cap_bs=2, rank_bits=3)
    e = h.eng
    f = [b for nm, bl in e.bodies.items() for b in bl if nm.endswith('range_set::{closure#0}')][0]
    VT = h.R.fields[0][1]
    bss = [h.boundset('a%d' % j)[0] for j in range(2)]
    ln = z3.BitVec('n', 64)
    h.wf.append(z3.ULE(ln, 2))
    vec = Vc(VT, ln, bss + [None] * (VT.cap - 2), 2)
    inp = fresh(STRSLICE, 'input')
    r = h.call(f, Clo('range_set', [inp]), vec)
    err = payload(r, 'Err')[0]
    kind = err.fs[err.ty.index('kind')]
    K = payload(kind, 'Some')[0]
    ok_r = payload(r, 'Ok')[0]
    s.cover(h, 'both outcomes', [ln == 0])
    s.prove(h, 'range_set fails exactly when no alternative produced an interval, with kind NoValidRanges', [],
            AND(is_variant(r, 'Err') == (ln == 0), z3.Implies(ln == 0, AND(is_variant(kind, 'Some'), is_variant(K, 'NoValidRanges')))))
    s.prove(h, 'otherwise the Range holds exactly the flattened intervals', [ln != 0], AND(is_variant(r, 'Ok'), ok_r.fs[0].len == ln))
