"""Shared pieces of the interval-algebra properties (C07-C10, C15): operands, observation programs, judges."""
import z3
from .. import replay as rp
from ..engine import AND, OR, NOT
from ..values import is_variant, payload, St, mk_variant

RANK_BITS = 4


def bits_for(nversions):
    b = 1
    while (1 << b) < nversions + 1:
        b += 1
    return max(b, 2)


def fnr(h, name):
    return h.fn('Range', None, name)


def decode_ab(h, A, B, v=None, extra=None):
    def dec(m):
        c = {'A': h.dec_range(m, A), 'B': h.dec_range(m, B) if B is not None else None}
        if v is not None:
            c['v'] = h.dec_version(m, v)
        if extra:
            for k, f in extra.items():
                c[k] = f(m)
        return c
    return dec


def prog_ab(case):
    names = rp.tok_names(case)
    prog = [rp.range_step('A', case['A'], names)]
    if case.get('B') is not None:
        prog.append(rp.range_step('B', case['B'], names))
    if case.get('v') is not None:
        prog.append(rp.version_step('v', case['v'], names))
    return prog, names


def built(native, prog):
    for st in prog:
        if st['op'] == 'range' and not rp.constructed(native, st['id'], st):
            return False, 'range %s = %r printed back as %r' % (st['id'], st['text'], (native.get(st['id']) or {}).get('print', native.get(st['id'])))
    return True, ''


def constructor_group(s, L=1):
    """BoundSet::new against an independent emptiness rule: the representation invariant quantifies over what the constructor
    accepts, so the constructor itself must accept exactly the non-empty (lower, upper) pairs and keep them unchanged"""
    from .. import oracles as O
    h = s.harness(L=L, cap_bs=2)
    lo, hi = h.predicate('lo'), h.predicate('hi')
    B = h.B
    from ..values import mk_variant
    r = h.call(h.f_new, mk_variant(B, 'Lower', [lo]), mk_variant(B, 'Upper', [hi]))
    lv, hv = h.pred_version(lo), h.pred_version(hi)
    lt, eq = O.o_lt_eq(lv, hv)
    valid = OR(lo.tag == 2, hi.tag == 2, lt, AND(eq, lo.tag == 1, hi.tag == 1))
    bs = payload(r, 'Some')[0]
    same = AND(h.lower_pred(bs).tag == lo.tag, h.upper_pred(bs).tag == hi.tag,
               z3.Implies(lo.tag != 2, O.o_lt_eq(h.pred_version(h.lower_pred(bs)), lv)[1]), z3.Implies(hi.tag != 2, O.o_lt_eq(h.pred_version(h.upper_pred(bs)), hv)[1]))

    def dec(m):
        return {'A': [{'lo': h.dec_pred(m, lo), 'hi': h.dec_pred(m, hi)}], 'B': None, 'v': h.dec_version(m, lv)}

    def replay(case):
        names = rp.tok_names(case)
        b = case['A'][0]
        parts = []
        if b['lo']['k'] != 'U':
            parts.append(('>=' if b['lo']['k'] == 'I' else '>') + rp.version_text(b['lo']['v'], names))
        if b['hi']['k'] != 'U':
            parts.append(('<=' if b['hi']['k'] == 'I' else '<') + rp.version_text(b['hi']['v'], names))
        text = ' '.join(parts) or '*'
        prog = [{'id': 'R', 'op': 'range', 'text': text}]

        def judge(native):
            from ..oracles import py_cmp, raw_version
            from ..oracles import py_within
            ok = (native.get('R') or {}).get('ok')
            if b['lo']['k'] == 'U' or b['hi']['k'] == 'U':
                valid_n = True
            else:
                c = py_cmp(raw_version(b['lo']['v'], names), raw_version(b['hi']['v'], names))
                valid_n = c < 0 or (c == 0 and b['lo']['k'] == 'I' and b['hi']['k'] == 'I')
            raw_b = {k: ({'k': 'U'} if b[k]['k'] == 'U' else {'k': b[k]['k'], 'v': raw_version(b[k]['v'], names)}) for k in ('lo', 'hi')}
            inside = py_within(raw_b, raw_version(case['v'], names))
            bad = (not ok and inside) or (ok and not valid_n)
            return ('confirmed' if bad else 'mismatch'), 'range %r: parsed=%s (%s); version %s lies within the pair: %s' % (
                text, ok, (native.get('R') or {}).get('print', (native.get('R') or {}).get('kind')), rp.version_text(case['v'], names), inside)
        return prog, judge
    s.cover(h, 'adjacent bounds with a tagged upper bound are accepted', [is_variant(r, 'Some'), lo.tag == 0, hi.tag == 0, h.is_pre(hv), NOT(h.is_pre(lv))])
    v = h.version('v')
    given = St(h.BS, [mk_variant(B, 'Upper', [hi]), mk_variant(B, 'Lower', [lo])])
    s.prove(h, 'BoundSet::new rejects a (lower, upper) pair only if no version lies within it', [is_variant(r, 'None')], NOT(O.o_within(h, given, v)),
            decode=lambda m: dict(dec(m), v=h.dec_version(m, v)), replay=replay)
    s.prove(h, 'BoundSet::new accepts only pairs whose lower cut lies before the upper cut', [is_variant(r, 'Some')], valid, decode=dec, replay=replay)
    s.prove(h, 'BoundSet::new keeps the bounds it was given', [is_variant(r, 'Some')], same, decode=dec, replay=replay)


def premise_c04_group(s, L=2):
    """rank and hybrid modes answer Version::cmp / == by a ghost rank; that is sound exactly when [[Version::cmp]] is the SemVer
    order and == coincides with Equal, which is discharged here on the concrete encoding of the same tree"""
    from . import c04
    n0 = len(s.results)
    c04.order_group(s, L)
    for r in s.results[n0:]:
        r['ob'] = 'premise of the order abstraction (C04): ' + r['ob']


def premise_group(tier):
    return {'name': 'premise-C04', 'fn': premise_c04_group, 'args': {'L': 2 if tier == 'quick' else 3}}
