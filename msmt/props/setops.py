"""Shared pieces of the interval-algebra properties (C07-C10, C15): operands, observation programs, judges."""
import z3
from .. import replay as rp
from ..engine import AND, OR, NOT
from ..values import is_variant, payload

RANK_BITS = 4


def bits_for(nversions):
    b = 1
    while (1 << b) < nversions + 1:
        b += 1
    return max(b, 2)


def fnr(h, name):
    return h.fn('Range', None, name)


def decode_ab(h, A, B, v=None, extra=None):
    def dec(m):
        c = {'A': h.dec_range(m, A), 'B': h.dec_range(m, B) if B is not None else None}
        if v is not None:
            c['v'] = h.dec_version(m, v)
        if extra:
            for k, f in extra.items():
                c[k] = f(m)
        return c
    return dec


def prog_ab(case):
    names = rp.tok_names(case)
    prog = [rp.range_step('A', case['A'], names)]
    if case.get('B') is not None:
        prog.append(rp.range_step('B', case['B'], names))
    if case.get('v') is not None:
        prog.append(rp.version_step('v', case['v'], names))
    return prog, names


def built(native, prog):
    for st in prog:
        if st['op'] == 'range' and not rp.constructed(native, st['id'], st):
            return False, 'range %s = %r printed back as %r' % (st['id'], st['text'], (native.get(st['id']) or {}).get('print', native.get(st['id'])))
    return True, ''
