"""C07 - Range::intersect computes exactly the set intersection."""
import z3
from ..engine import AND, OR, NOT
from ..values import is_variant, payload
from .. import replay as rp
from .setops import premise_group, constructor_group, bits_for, fnr, decode_ab, prog_ab, built

from ..validate import validation_group
BOUNDS = {
    'quick': {'alternatives_per_operand': '1..2', 'hybrid_groups': 'identifiers abstract (any length), fields major/minor/patch full u64 <= MAX_SAFE_INTEGER for operand products < 4 alternatives, < 8 for larger products', 'identifier_list_len': 1, 'versions': 'rank mode: any total preorder on the bound/probe versions; concrete mode: u64 components <= MAX_SAFE_INTEGER'},
    'thorough': {'alternatives_per_operand': '1..3 each, plus 4x1 1x4 4x2 2x4 5x1 1x5', 'identifier_list_len': 2, 'versions': 'same'},
}
OUTSIDE = ['ranges with more alternatives than the bound', 'identifier lists longer than the bound', 'contents of alphanumeric identifiers (abstract ordered tokens)',
           'text -> range (parser) and range -> text (Display): operands are arbitrary values accepted by BoundSet::new']
ASSUMPTIONS = ['rank mode is sound given C04 (Version::cmp is a total preorder whose Equal coincides with ==): discharged by the C04 check on the same tree',
               'std models of cmp::max/min, PartialOrd default methods, Vec, slice::Iter are transcriptions of the pinned nightly rust-src',
               'every BoundSet is built by BoundSet::new (checked syntactically on the MIR)']


def groups(tier):
    K = 2 if tier == 'quick' else 3
    gs = []
    for ka in range(1, K + 1):
        for kb in range(1, K + 1):
            gs.append({'name': 'rank-%dx%d' % (ka, kb), 'fn': rank_group, 'rank_fallback': True, 'args': {'ka': ka, 'kb': kb}})
    if tier != 'quick':
        for ka, kb in ((4, 1), (1, 4), (4, 2), (2, 4), (5, 1), (1, 5)):
            gs.append({'name': 'rank-%dx%d' % (ka, kb), 'fn': rank_group, 'rank_fallback': True, 'args': {'ka': ka, 'kb': kb}})
    for ka in range(1, K + 1):
        for kb in range(1, K + 1):
            gs.append({'name': 'pre-hybrid-%dx%d' % (ka, kb), 'fn': pre_group, 'args': {'ka': ka, 'kb': kb, 'L': 1, 'hybrid': True}})
    if tier != 'quick':
        gs.append({'name': 'pre-concrete-1x1', 'fn': pre_group, 'args': {'ka': 1, 'kb': 1, 'L': 2, 'hybrid': False}})
    if tier != 'quick':
        gs.append({'name': 'kani-k1', 'fn': kani_group, 'args': {}, 'timeout_s': 1500})
    gs.append({'name': 'constructor', 'fn': constructor_group, 'args': {'L': 1 if tier == 'quick' else 2}})
    gs.append(validation_group(('intersect', 'satisfies'), tier))
    gs.append(premise_group(tier))
    return gs


def judge_pointwise(case, sat_level=False):
    prog, names = prog_ab(case)
    prog.append({'id': 'I', 'op': 'intersect', 'a': 'A', 'b': 'B'})
    prog.append({'id': 'J', 'op': 'intersect', 'a': 'B', 'b': 'A'})
    for r in ('A', 'B', 'I', 'J'):
        prog.append({'id': 's' + r, 'op': 'satisfies', 'r': r, 'v': 'v'})
        prog.append({'id': 'a' + r, 'op': 'adm', 'r': r, 'v': 'v'})      # bounds membership: overlap with the exact range `=v`

    def judge(native):
        ok, why = built(native, prog)
        if not ok:
            return 'unconstructible', why
        if 'panic' in str(native.get('I')):
            return 'confirmed', 'intersect panicked: %s' % native['I']
        sI = bool(native.get('sI')) if (native.get('I') or {}).get('some') else False
        sJ = bool(native.get('sJ')) if (native.get('J') or {}).get('some') else False
        sA, sB = native['sA'], native['sB']
        txt = 'A=%s B=%s v=%s: A.intersect(B)=%s satisfies(v): A=%s B=%s A∩B=%s B∩A=%s' % (
            prog[0]['text'], prog[1]['text'], rp.version_text(case['v'], names), (native.get('I') or {}).get('print'), sA, sB, sI, sJ)
        pre = bool(case['v']['pre'])
        if not pre:
            if sI != (sA and sB) or sI != sJ:
                return 'confirmed', txt
        else:
            if (sA and sB and not sI) or (sI and not (sA or sB)):
                return 'confirmed', txt
            aA, aB = bool(native.get('aA')), bool(native.get('aB'))
            aI = bool(native.get('aI')) if (native.get('I') or {}).get('some') else False
            aJ = bool(native.get('aJ')) if (native.get('J') or {}).get('some') else False
            if aI != (aA and aB) or aI != aJ:
                return 'confirmed', txt + ' | within the bounds (allows_any(=v)): A=%s B=%s A∩B=%s B∩A=%s' % (aA, aB, aI, aJ)
        return 'mismatch', txt
    return prog, judge


def rank_group(s, ka, kb, hybrid=False, concrete=False):
    h = s.harness(L=1, cap_bs=max(ka * kb, 1), rank_bits=(0 if concrete else bits_for(2 * (ka + kb) + 1)), hybrid=hybrid, field_bits=(3 if hybrid else 0))
    s.ri_sites(h)
    A, Abs = h.range_('A', ka, allow_any=True)
    B, Bbs = h.range_('B', kb, allow_any=True)
    v = h.version('v')
    f = fnr(h, 'intersect')
    n0 = len(h.eng.sink.panics)
    I = h.call(f, A, B)
    J = h.call(f, B, A)
    pan = [c for _, _, c in h.panics_since(n0)]
    dec = decode_ab(h, A, B, v)
    s.cover(h, 'operands satisfiable, result Some and admits v', [h.adm_opt(I, v)])
    s.cover(h, 'result None reachable', [is_variant(I, 'None')])
    s.prove(h, 'adm(A∩B,v) <=> adm(A,v) ∧ adm(B,v)  (None = empty)', [], h.adm_opt(I, v) == AND(h.adm(A, v), h.adm(B, v)), decode=dec, replay=judge_pointwise)
    s.prove(h, 'commutative on admitted versions', [], h.adm_opt(I, v) == h.adm_opt(J, v), decode=dec, replay=judge_pointwise)
    # RI closure: every alternative of the result is again an interval the constructor accepts
    res = payload(I, 'Some')[0].fs[0]
    ri = []
    for i in range(res.ty.cap):
        if res.slots[i] is not None:
            ri.append(z3.Implies(AND(is_variant(I, 'Some'), z3.UGT(res.len, i)), h.ri_bs(res.slots[i])))
    s.prove(h, 'result alternatives satisfy the representation invariant; Some => non-empty list', [], AND(AND(*ri), z3.Implies(is_variant(I, 'Some'), res.len != 0)), decode=dec, replay=judge_pointwise)
    s.unreachable(h, 'no panic in intersect', [], pan, decode=dec, replay=judge_pointwise)
    if ka == kb:
        n1 = len(h.eng.sink.panics)
        AA = h.call(f, A, A)
        s.prove(h, 'idempotent on admitted versions: adm(A∩A,v) <=> adm(A,v)', [], h.adm_opt(AA, v) == h.adm(A, v), decode=decode_ab(h, A, A, v), replay=judge_pointwise)
        s.unreachable(h, 'no panic in A.intersect(A)', [], [c for _, _, c in h.panics_since(n1)], decode=decode_ab(h, A, A, v), replay=judge_pointwise)
    s.bounds_ok(h, 'intersect %dx%d' % (ka, kb), [])


def pre_group(s, ka, kb, L, hybrid=True):
    """prerelease clauses through satisfies (concrete order, real gate)"""
    h = s.harness(L=L, cap_bs=max(ka * kb, 1), rank_bits=(bits_for(2 * (ka + kb) + 1) if hybrid else 0), hybrid=hybrid, field_bits=(3 if hybrid and ka * kb >= 4 else 0))
    A, Abs = h.range_('A', ka, allow_any=True)
    B, Bbs = h.range_('B', kb, allow_any=True)
    v = h.version('v')
    f, fs = fnr(h, 'intersect'), fnr(h, 'satisfies')
    I = h.call(f, A, B)
    sA, sB = h.call(fs, A, v).t, h.call(fs, B, v).t
    Ir = payload(I, 'Some')[0]
    sI = AND(is_variant(I, 'Some'), h.call(fs, Ir, v).t)
    dec = decode_ab(h, A, B, v)
    s.cover(h, 'a prerelease satisfies the result', [sI, h.is_pre(v)])
    s.prove(h, 'release v: satisfies(A∩B,v) <=> satisfies(A,v) ∧ satisfies(B,v)', [NOT(h.is_pre(v))], sI == AND(sA, sB), decode=dec, replay=judge_pointwise)
    s.prove(h, 'prerelease v satisfying both satisfies the result', [h.is_pre(v)], z3.Implies(AND(sA, sB), sI), decode=dec, replay=judge_pointwise)
    s.prove(h, 'prerelease v satisfying the result lies within both and satisfies at least one', [h.is_pre(v)],
            z3.Implies(sI, AND(h.adm(A, v), h.adm(B, v), OR(sA, sB))), decode=dec, replay=judge_pointwise)
    s.bounds_ok(h, 'intersect %dx%d' % (ka, kb), [])


def kani_group(s):
    """lemma reported next to the verdicts: Bound::cmp is antisymmetric (engine M, then Kani on the compiled code)"""
    from .. import kani
    from ..values import En, fresh
    h = s.harness(L=1, cap_bs=2)
    bounds = []
    for nm in ('a', 'b'):
        p = h.predicate(nm)
        side = z3.BitVec('side_' + nm, 8)
        h.wf.append(z3.ULT(side, 2))
        bounds.append(En(h.B, side, [[p], [p]]))
    f = h.fn('Bound', 'Ord', 'cmp')
    ab, ba = h.call(f, bounds[0], bounds[1]), h.call(f, bounds[1], bounds[0])
    status, _, _ = h.check(h.wf, ba.tag == 2 - ab.tag)
    s.add(ob='lemma: Bound::cmp is antisymmetric on arbitrary bounds (diagnostic; the verdicts above do not depend on it)', mode='concrete', solver_s=0.0, kind='prove',
          verdict='holds' if status == 'unsat' else 'inconclusive', detail='' if status == 'unsat' else 'Bound::cmp is not antisymmetric (%s)' % status)
    kani.cross_check(s, 'k1_bound_cmp_antisym', status == 'unsat', 'Bound::cmp antisymmetric on two arbitrary bounds')
