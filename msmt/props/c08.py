"""C08 - Range::difference computes exactly the set difference."""
import z3
from ..engine import AND, OR, NOT
from ..values import is_variant, payload
from .. import replay as rp
from .setops import premise_group, constructor_group, bits_for, fnr, decode_ab, prog_ab, built

from ..validate import validation_group
BOUNDS = {
    'quick': {'alternatives_per_operand': '1..2', 'hybrid_groups': 'identifiers abstract (any length), fields major/minor/patch full u64 <= MAX_SAFE_INTEGER for operand products < 4 alternatives, < 8 for larger products', 'identifier_list_len': 1},
    'thorough': {'alternatives_per_operand': '1..3 except 3x3 (rank groups); products <= 4 (hybrid groups)', 'identifier_list_len': 2},
}
OUTSIDE = ['ranges with more alternatives than the bound', 'identifier lists longer than the bound', 'contents of alphanumeric identifiers',
           'parser / Display (operands are arbitrary values accepted by BoundSet::new)']
ASSUMPTIONS = ['rank mode is sound given C04', 'std models are transcriptions of the pinned nightly rust-src', 'every BoundSet is built by BoundSet::new']


def groups(tier):
    K = 2 if tier == 'quick' else 3
    gs = []
    for ka in range(1, K + 1):
        for kb in range(1, K + 1):
            if ka * kb >= 9:
                continue            # 3x3: the pointwise query ran past the 30 min cap (measured); 2x3 needs ~15 min
            gs.append({'name': 'rank-%dx%d' % (ka, kb), 'fn': rank_group, 'rank_fallback': True, 'args': {'ka': ka, 'kb': kb}})
    for ka in range(1, K + 1):
        for kb in range(1, K + 1):
            if ka * kb > 4:
                continue
            gs.append({'name': 'sat-hybrid-%dx%d' % (ka, kb), 'fn': sat_group, 'args': {'ka': ka, 'kb': kb, 'L': 1, 'hybrid': True}})
    if tier != 'quick':
        gs.append({'name': 'sat-concrete-1x1', 'fn': sat_group, 'args': {'ka': 1, 'kb': 1, 'L': 2, 'hybrid': False}})
    gs.append({'name': 'constructor', 'fn': constructor_group, 'args': {'L': 1 if tier == 'quick' else 2}})
    gs.append(validation_group(('difference',), tier))
    gs.append(premise_group(tier))
    return gs


def judge_diff(case):
    prog, names = prog_ab(case)
    prog.append({'id': 'D', 'op': 'difference', 'a': 'A', 'b': 'B'})
    prog.append({'id': 'I', 'op': 'intersect', 'a': 'A', 'b': 'B'})
    for r in ('A', 'B', 'D', 'I'):
        prog.append({'id': 's' + r, 'op': 'satisfies', 'r': r, 'v': 'v'})
        prog.append({'id': 'a' + r, 'op': 'adm', 'r': r, 'v': 'v'})

    def judge(native):
        ok, why = built(native, prog)
        if not ok:
            return 'unconstructible', why
        if 'panic' in str(native.get('D')):
            return 'confirmed', 'A=%s B=%s: difference panicked: %s' % (prog[0]['text'], prog[1]['text'], native['D'])
        sD = bool(native.get('sD')) if (native.get('D') or {}).get('some') else False
        sI = bool(native.get('sI')) if (native.get('I') or {}).get('some') else False
        sA, sB = native['sA'], native['sB']
        txt = 'A=%s B=%s v=%s: A.difference(B)=%s satisfies(v): A=%s B=%s A\\B=%s A∩B=%s' % (
            prog[0]['text'], prog[1]['text'], rp.version_text(case['v'], names), (native.get('D') or {}).get('print'), sA, sB, sD, sI)
        if case['v']['pre']:
            aA, aB = bool(native.get('aA')), bool(native.get('aB'))
            aD = bool(native.get('aD')) if (native.get('D') or {}).get('some') else False
            if aD != (aA and not aB):
                return 'confirmed', txt + ' | within the bounds (allows_any(=v)): A=%s B=%s A\\B=%s' % (aA, aB, aD)
            return 'mismatch', 'prerelease probe: ' + txt
        if sD != (sA and not sB) or (sD and sI) or ((sD or sI) != sA):
            return 'confirmed', txt
        return 'mismatch', txt
    return prog, judge


def rank_group(s, ka, kb, hybrid=False, concrete=False):
    h = s.harness(L=1, cap_bs=max(ka * 2 ** kb, 2 * ka * kb), rank_bits=(0 if concrete else bits_for(2 * (ka + kb) + 1)), hybrid=hybrid, field_bits=(3 if hybrid else 0))
    s.ri_sites(h)
    A, _ = h.range_('A', ka, allow_any=True)
    B, _ = h.range_('B', kb, allow_any=True)
    v = h.version('v')
    n0 = len(h.eng.sink.panics)
    D = h.call(fnr(h, 'difference'), A, B)
    pan = [c for _, _, c in h.panics_since(n0)]
    I = h.call(fnr(h, 'intersect'), A, B)
    dec = decode_ab(h, A, B, v)
    aA, aB, aD, aI = h.adm(A, v), h.adm(B, v), h.adm_opt(D, v), h.adm_opt(I, v)
    s.cover(h, 'result Some and admits v', [aD])
    s.cover(h, 'result None reachable', [is_variant(D, 'None')])
    s.prove(h, 'adm(A\\B,v) <=> adm(A,v) ∧ ¬adm(B,v) for every alternative of B  (None = empty)', [], aD == AND(aA, NOT(aB)), decode=dec, replay=judge_diff)
    if ka * kb <= 2:
        s.prove(h, 'partition: adm(A∩B,v) ∨ adm(A\\B,v) <=> adm(A,v), and the two are disjoint', [], AND(OR(aI, aD) == aA, NOT(AND(aI, aD))), decode=dec, replay=judge_diff)
    else:
        # for larger operands the partition law is discharged as its two halves (it is their propositional consequence)
        s.prove(h, 'partition, second half: adm(A∩B,v) <=> adm(A,v) ∧ adm(B,v)', [], aI == AND(aA, aB), decode=dec, replay=judge_diff,
                note='with the first obligation this gives adm(A∩B) ∨ adm(A\\B) <=> adm(A) and disjointness')
    res = payload(D, 'Some')[0].fs[0]
    ri = []
    for i in range(res.ty.cap):
        if res.slots[i] is not None:
            ri.append(z3.Implies(AND(is_variant(D, 'Some'), z3.UGT(res.len, i)), h.ri_bs(res.slots[i])))
    s.prove(h, 'result alternatives satisfy the representation invariant; Some => non-empty list', [], AND(AND(*ri), z3.Implies(is_variant(D, 'Some'), res.len != 0)), decode=dec, replay=judge_diff)
    s.unreachable(h, 'no panic in difference (unwrap of BoundSet::new)', [], pan, decode=dec, replay=judge_diff)
    if ka == kb:
        n1 = len(h.eng.sink.panics)
        AA = h.call(fnr(h, 'difference'), A, A)
        s.prove(h, 'A\\A admits nothing', [], NOT(h.adm_opt(AA, v)), decode=decode_ab(h, A, A, v), replay=judge_diff)
        s.unreachable(h, 'no panic in A.difference(A)', [], [c for _, _, c in h.panics_since(n1)], decode=decode_ab(h, A, A, v), replay=judge_diff)
    s.bounds_ok(h, 'difference %dx%d' % (ka, kb), [])


def sat_group(s, ka, kb, L, hybrid=True):
    h = s.harness(L=L, cap_bs=max(ka * 2 ** kb, 2 * ka * kb), rank_bits=(bits_for(2 * (ka + kb) + 1) if hybrid else 0), hybrid=hybrid, field_bits=(3 if hybrid and ka * kb >= 4 else 0))
    A, _ = h.range_('A', ka, allow_any=True)
    B, _ = h.range_('B', kb, allow_any=True)
    v = h.version('v')
    fs = fnr(h, 'satisfies')
    D = h.call(fnr(h, 'difference'), A, B)
    sA, sB = h.call(fs, A, v).t, h.call(fs, B, v).t
    sD = AND(is_variant(D, 'Some'), h.call(fs, payload(D, 'Some')[0], v).t)
    dec = decode_ab(h, A, B, v)
    s.cover(h, 'a release satisfies the result', [sD, NOT(h.is_pre(v))])
    s.prove(h, 'release v: satisfies(A\\B,v) <=> satisfies(A,v) ∧ ¬satisfies(B,v)', [NOT(h.is_pre(v))], sD == AND(sA, NOT(sB)), decode=dec, replay=judge_diff)
    s.bounds_ok(h, 'difference %dx%d' % (ka, kb), [])
