"""C14 - max_satisfying / min_satisfying return the extreme satisfying list element."""
import z3
from ..engine import AND, OR, NOT
from ..values import is_variant, payload, leaves, Vc, bv
from .. import replay as rp
from .. import oracles as O
from .setops import premise_group, bits_for, fnr, built

from ..validate import validation_group
BOUNDS = {'quick': {'slice length': '0..3', 'range alternatives': '1..2', 'mode': 'hybrid (identifiers abstract, any length)'},
          'thorough': {'slice length': '0..4 (K <= 3), 0..5 (K <= 2), 0..6 (K = 1)', 'range alternatives': '1..3', 'mode': 'hybrid + one concrete group (identifier lists <= 2)'}}
OUTSIDE = ['slices longer than the bound', 'reference identity is observed as the element index (the model returns the element value)']
ASSUMPTIONS = ['Iterator::filter/max/min models are transcriptions of the pinned rust-src (max_by keeps the last maximum, min_by the first minimum)',
               'hybrid mode sound given C04; O-sat as in C03']


def groups(tier):
    N = 3 if tier == 'quick' else 4
    K = 2 if tier == 'quick' else 3
    gs = []
    for k in range(1, K + 1):
        gs.append({'name': 'hybrid-N%d-K%d' % (N, k), 'fn': sat_group, 'args': {'N': N, 'k': k, 'hybrid': True}})
    if tier != 'quick':
        gs.append({'name': 'hybrid-N5-K1', 'fn': sat_group, 'args': {'N': 5, 'k': 1, 'hybrid': True}})
        gs.append({'name': 'hybrid-N5-K2', 'fn': sat_group, 'args': {'N': 5, 'k': 2, 'hybrid': True}})
        gs.append({'name': 'hybrid-N6-K1', 'fn': sat_group, 'args': {'N': 6, 'k': 1, 'hybrid': True}})
        gs.append({'name': 'concrete-N2-K1', 'fn': sat_group, 'args': {'N': 2, 'k': 1, 'hybrid': False, 'L': 2}})
    gs.append(validation_group(('max_satisfying',), tier))
    gs.append(premise_group(tier))
    return gs


def judge_ms(case):
    names = rp.tok_names(case)
    prog = [rp.range_step('A', case['A'], names)]
    ids = []
    for i, v in enumerate(case['vs']):
        prog.append(rp.version_step('v%d' % i, v, names))
        ids.append('v%d' % i)
    prog += [{'id': 'max', 'op': 'max_satisfying', 'r': 'A', 'vs': ids}, {'id': 'min', 'op': 'min_satisfying', 'r': 'A', 'vs': ids},
             {'id': 'maxr', 'op': 'max_satisfying', 'r': 'A', 'vs': ids[::-1]}, {'id': 'minr', 'op': 'min_satisfying', 'r': 'A', 'vs': ids[::-1]}]

    def judge(native):
        ok, why = built(native, prog)
        if not ok:
            return 'unconstructible', why
        R = O.raw_range(case['A'], names)
        vs = [O.raw_version(v, names) for v in case['vs']]
        sats = [i for i, v in enumerate(vs) if O.py_sat(R, v)]
        txt = 'range=%s versions=[%s]: max_satisfying=%s min_satisfying=%s; satisfying indices %s' % (
            prog[0]['text'], ', '.join(rp.version_text(v, names) for v in case['vs']), native['max'], native['min'], sats)
        bad = False
        for key, sign in (('max', 1), ('min', -1), ('maxr', 1), ('minr', -1)):
            r = native[key]
            if 'panic' in str(r):
                return 'confirmed', txt
            if not sats:
                bad = bad or r.get('some')
                continue
            if not r.get('some') or r.get('index') is None:
                bad = True
                continue
            idx = r['index'] if not key.endswith('r') else len(vs) - 1 - r['index']
            if idx not in sats or any(sign * O.py_cmp(vs[j], vs[idx]) > 0 for j in sats):
                bad = True
        return ('confirmed' if bad else 'mismatch'), txt
    return prog, judge


def sat_group(s, N, k, hybrid, L=1):
    caps = {'Version': N}
    h = s.harness(L=L, cap_bs=max(k, 2), rank_bits=(bits_for(N + 2 * k + 1) if hybrid else 0), hybrid=hybrid, caps=caps,
                  field_bits=(3 if hybrid and N + 2 * k > 6 else 0))
    A, bss = h.range_('A', k, allow_any=True)
    vs = [h.version('e%d' % i) for i in range(N)]
    vt = h.eng.ty('&[Version]')
    n = z3.BitVec('n', 64)
    h.wf.append(z3.ULE(n, N))
    sl = Vc(vt, n, vs, N)
    dec = lambda m: {'A': h.dec_range(m, A), 'vs': [h.dec_version(m, vs[i]) for i in range(m.eval(n, model_completion=True).as_long())]}
    sat = [AND(z3.UGT(n, i), h.sat(A, vs[i])) for i in range(N)]
    for name, sign in (('max_satisfying', 1), ('min_satisfying', -1)):
        n0 = len(h.eng.sink.panics)
        r = h.call(fnr(h, name), A, sl)
        pan = [c for _, _, c in h.panics_since(n0)]
        rv = payload(r, 'Some')[0]
        some = is_variant(r, 'Some')
        is_elem = []
        for i in range(N):
            same = AND(*[x == y if not x.eq(y) else z3.BoolVal(True) for x, y in zip(leaves(rv), leaves(vs[i]))])
            is_elem.append(AND(z3.UGT(n, i), same, sat[i]))
        beaten = OR(*[AND(sat[j], (h.cmp(vs[j], rv).tag == 2) if sign > 0 else (h.cmp(vs[j], rv).tag == 0)) for j in range(N)])
        s.cover(h, '%s: two precedence-equal satisfying elements and a rejected prerelease' % name,
                [some, z3.UGE(n, 3) if N >= 3 else z3.UGE(n, 2), sat[0], sat[1], h.cmp(vs[0], vs[1]).tag == 1] + ([h.is_pre(vs[2]), NOT(sat[2])] if N >= 3 else []))
        s.prove(h, '%s is None exactly when no element satisfies' % name, [], is_variant(r, 'None') == NOT(OR(*sat)), decode=dec, replay=judge_ms)
        s.prove(h, '%s returns an element of the slice that satisfies the range (never an unadmitted prerelease)' % name, [], z3.Implies(some, OR(*is_elem)), decode=dec, replay=judge_ms)
        s.prove(h, '%s: no satisfying element is %s in precedence' % (name, 'higher' if sign > 0 else 'lower'), [], z3.Implies(some, NOT(beaten)), decode=dec, replay=judge_ms)
        # order independence up to precedence-equal elements: reversed slice
        rev_slots = [None] * N
        for i in range(N):
            # element at position i of the reversed slice is vs[n-1-i]
            e = None
            for j in range(N):
                from ..values import ite
                e = vs[j] if e is None else ite(n == i + j + 1, vs[j], e)
            rev_slots[i] = e
        r2 = h.call(fnr(h, name), A, Vc(vt, n, rev_slots, N))
        rv2 = payload(r2, 'Some')[0]
        s.prove(h, '%s on the reversed slice gives a precedence-equal answer' % name, [], AND(r.tag == r2.tag, z3.Implies(some, h.cmp(rv, rv2).tag == 1)), decode=dec, replay=judge_ms)
        s.unreachable(h, 'no panic in %s' % name, [], pan, decode=dec, replay=judge_ms)
    s.bounds_ok(h, 'max/min_satisfying', [])
