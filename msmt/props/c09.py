"""C09 - allows_any is true exactly when the two ranges overlap."""
import z3
from ..engine import AND, OR, NOT
from ..values import is_variant, payload
from .. import replay as rp
from .setops import premise_group, bits_for, fnr, decode_ab, prog_ab, built

from ..validate import validation_group
BOUNDS = {'quick': {'alternatives_per_operand': '1..2'}, 'thorough': {'alternatives_per_operand': '1..6'}}
OUTSIDE = ['more alternatives than the bound', 'parser / Display', '"true => some version lies in both" is not claimed (adjacent prereleases leave empty gaps); the property states the other direction']
ASSUMPTIONS = ['rank mode is sound given C04', 'std models are transcriptions of the pinned nightly rust-src', 'every BoundSet is built by BoundSet::new']


def groups(tier):
    K = 2 if tier == 'quick' else 6
    return [{'name': 'rank-%dx%d' % (ka, kb), 'fn': rank_group, 'rank_fallback': True, 'args': {'ka': ka, 'kb': kb}} for ka in range(1, K + 1) for kb in range(1, K + 1)] + [validation_group(('allows_any',), tier)] + [premise_group(tier)]


def judge_any(case):
    prog, names = prog_ab(case)
    prog += [{'id': 'ab', 'op': 'allows_any', 'a': 'A', 'b': 'B'}, {'id': 'ba', 'op': 'allows_any', 'a': 'B', 'b': 'A'},
             {'id': 'I', 'op': 'intersect', 'a': 'A', 'b': 'B'},
             {'id': 'sA', 'op': 'satisfies', 'r': 'A', 'v': 'v'}, {'id': 'sB', 'op': 'satisfies', 'r': 'B', 'v': 'v'}]

    def judge(native):
        ok, why = built(native, prog)
        if not ok:
            return 'unconstructible', why
        for k in ('ab', 'ba', 'I'):
            if 'panic' in str(native.get(k)):
                return 'confirmed', '%s panicked: %s' % (k, native[k])
        ab, ba, some = native['ab'], native['ba'], (native.get('I') or {}).get('some')
        txt = 'A=%s B=%s v=%s: A.allows_any(B)=%s B.allows_any(A)=%s A.intersect(B).is_some()=%s satisfies(v): A=%s B=%s' % (
            prog[0]['text'], prog[1]['text'], rp.version_text(case['v'], names), ab, ba, some, native['sA'], native['sB'])
        if ab != ba or ab != some or (native['sA'] and native['sB'] and not ab):
            return 'confirmed', txt
        return 'mismatch', txt
    return prog, judge


def rank_group(s, ka, kb, hybrid=False, concrete=False):
    h = s.harness(L=1, cap_bs=max(ka * kb, 2), rank_bits=(0 if concrete else bits_for(2 * (ka + kb) + 1)), hybrid=hybrid, field_bits=(3 if hybrid else 0))
    s.ri_sites(h)
    A, _ = h.range_('A', ka, allow_any=True)
    B, _ = h.range_('B', kb, allow_any=True)
    v = h.version('v')
    n0 = len(h.eng.sink.panics)
    ab = h.call(fnr(h, 'allows_any'), A, B).t
    ba = h.call(fnr(h, 'allows_any'), B, A).t
    pan = [c for _, _, c in h.panics_since(n0)]
    I = h.call(fnr(h, 'intersect'), A, B)
    sA, sB = h.call(fnr(h, 'satisfies'), A, v).t, h.call(fnr(h, 'satisfies'), B, v).t
    dec = decode_ab(h, A, B, v)
    s.cover(h, 'allows_any true reachable', [ab])
    s.cover(h, 'allows_any false reachable', [NOT(ab)])
    s.prove(h, 'A.allows_any(B) == A.intersect(B).is_some()', [], ab == is_variant(I, 'Some'), decode=dec, replay=judge_any)
    s.prove(h, 'symmetric: A.allows_any(B) == B.allows_any(A)', [], ab == ba, decode=dec, replay=judge_any)
    s.prove(h, 'false => no version lies within the bounds of both', [], z3.Implies(NOT(ab), NOT(AND(h.adm(A, v), h.adm(B, v)))), decode=dec, replay=judge_any)
    s.prove(h, 'some version satisfies both => true', [], z3.Implies(AND(sA, sB), ab), decode=dec, replay=judge_any)
    s.unreachable(h, 'no panic in allows_any', [], pan, decode=dec, replay=judge_any)
    s.bounds_ok(h, 'allows_any %dx%d' % (ka, kb), [])
