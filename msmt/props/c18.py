"""C18 - tuple conversions build exactly the denoted version (all ten integer types, full width)."""
import z3
from ..engine import AND, OR, NOT
from ..types import INTS, TStruct
from ..values import Sc, St, fresh, is_variant, payload
from .. import replay as rp

TYPES = ['u8', 'u16', 'u32', 'u64', 'usize', 'i8', 'i16', 'i32', 'i64', 'isize']
BOUNDS = {'integer types': 'all ten', 'values': 'every value of the type (signed: non-negative, as the property states)'}
OUTSIDE = ['"equals Version::parse of the dotted string" and "prints as" need the winnow parser / core::fmt (not encodable): the conversion is checked against the denoted field values instead',
           'negative signed inputs (outside the stated domain; they hit the debug_assert! in debug builds)']
ASSUMPTIONS = ['the vec![..] lowering (Box::new_uninit + write + box_assume_init_into_vec_unsafe) yields a Vec of exactly the written elements']


def groups(tier):
    gs = [{'name': 'from-' + t, 'fn': from_group, 'args': {'tn': t}} for t in TYPES]
    if tier != 'quick':
        gs.append({'name': 'kani-k3', 'fn': kani_group, 'args': {}, 'timeout_s': 1200})
    return gs


def judge_from(tn, arity):
    def mk(case):
        prog = [{'id': 'v', 'op': 'from_tuple', 'ty': tn, 'vals': case['vals']}]

        def judge(native):
            v = (native.get('v') or {}).get('v')
            if 'panic' in str(native.get('v')):
                return 'confirmed', 'Version::from((%s): (%s,..)) panicked: %s' % (', '.join(map(str, case['vals'])), tn, native['v'])
            want_pre = [{'n': case['vals'][3]}] if arity == 4 else []
            ok = v and [v['major'], v['minor'], v['patch']] == case['vals'][:3] and v['pre'] == want_pre and v['build'] == []
            return ('mismatch' if ok else 'confirmed'), 'Version::from(%s as (%s,..)) = %s' % (case['vals'], tn, v and v['print'])
        return prog, judge
    return mk


def from_group(s, tn):
    h = s.harness(L=1)
    t = INTS[tn]
    for arity in (3, 4):
        sig = '(' + ', '.join([tn] * arity) + ')'
        f = h.fn('Version', 'From', 'from', sig)
        xs = [fresh(t, 'x%d' % i) for i in range(arity)]
        arg = St(TStruct('tuple', [(str(i), t) for i in range(arity)]), xs)
        n0 = len(h.eng.sink.panics)
        v = h.call(f, arg)
        pan = [c for _, _, c in h.panics_since(n0)]
        pre = [(x.t >= 0) for x in xs] if t.signed else []
        ext = lambda x: z3.ZeroExt(64 - t.w, x.t) if t.w < 64 else x.t
        goal = [v.fs[i].t == ext(xs[i]) for i in range(3)]
        goal.append(v.fs[3].len == 0)
        if arity == 3:
            goal.append(v.fs[4].len == 0)
        else:
            e = v.fs[4].slots[0]
            goal += [v.fs[4].len == 1, e is not None and e.tag == 0, payload(e, 0)[0].t == ext(xs[3])] if e is not None else [z3.BoolVal(False)]
        dec = lambda m, xs=xs: {'vals': [m.eval(x.t, model_completion=True).as_long() for x in xs]}
        s.cover(h, '%s: preconditions satisfiable with large values' % sig, pre + [z3.UGT(ext(xs[0]), 100)])
        s.prove(h, 'Version::from(%s) has exactly the denoted fields, empty build, %s' % (sig, 'no prerelease' if arity == 3 else 'one numeric prerelease identifier'),
                pre, AND(*goal), decode=dec, replay=judge_from(tn, arity))
        s.unreachable(h, 'Version::from(%s) does not panic on non-negative input' % sig, pre, pan, decode=dec, replay=judge_from(tn, arity))


def kani_group(s):
    from .. import kani
    # engine M's verdict on the two instantiations the Kani harness covers: (i8 x4) and (u64 x3)
    s2 = type(s)('m-side', s.tier, s.seed, s.ws, s.binary, s.timeout_s)
    from_group(s2, 'i8')
    from_group(s2, 'u64')
    holds = all(r['verdict'] == 'holds' for r in s2.results)
    kani.cross_check(s, 'k3_from_tuples', holds, 'From<(i8,i8,i8,i8)> and From<(u64,u64,u64)> build the denoted fields')
