"""C04 - Version precedence is the SemVer total order; Eq, Ord and Hash agree."""
import z3
from ..engine import AND, OR, NOT, Ref
from ..values import Sc, is_variant, payload, bv
from .. import replay as rp
from .. import oracles as O

from ..validate import validation_group
BOUNDS = {'quick': {'identifier_list_len': 2, 'numeric identifiers': 'full u64', 'components': 'u64 <= MAX_SAFE_INTEGER'},
          'thorough': {'identifier_list_len': '6 (order), 4 (laws on triples, hash)', 'numeric identifiers': 'full u64', 'components': 'u64 <= MAX_SAFE_INTEGER'}}
OUTSIDE = ['identifier lists longer than the bound', 'single identifiers longer than 24 bytes in the identifier-parse group', 'contents of alphanumeric identifiers: String comparison is trusted to be byte-wise (abstract ordered tokens)',
           'slice::sort / BinaryHeap consistency follows from the total order by the std contract (not encoded); Iterator::max/min are covered under C14']
ASSUMPTIONS = ['identifier-parse group: <u64 as FromStr> is modelled (not encoded) as Ok(decimal value) exactly for all-digit texts below 2^64 over the identifier alphabet [0-9A-Za-z-]; checked natively on the identifier corpus and on every counterexample text',
               'String: Ord is byte-wise lexicographic (std documentation)', 'Hasher modelled as an uninterpreted mixing function: equal traces give equal hashes',
               'std models of slice cmp/eq/hash are transcriptions of the pinned nightly rust-src']


def groups(tier):
    L = 2 if tier == 'quick' else 6
    gs = [{'name': 'order-L%d' % L, 'fn': order_group, 'args': {'L': L}},
          {'name': 'laws-L%d' % min(L, 4), 'fn': laws_group, 'args': {'L': min(L, 4)}},
          {'name': 'hash-L%d' % min(L, 4), 'fn': hash_group, 'args': {'L': min(L, 4)}}]
    gs.append({'name': 'identifier', 'fn': ident_group, 'args': {}})
    gs.append({'name': 'identifier-parse', 'fn': ident_parse_group, 'args': {}})
    if tier != 'quick':
        gs.append({'name': 'order-L1', 'fn': order_group, 'args': {'L': 1}})
        gs.append({'name': 'kani-k4', 'fn': kani_group, 'args': {}, 'timeout_s': 1200})
    gs.append(validation_group(('cmp',), tier))
    return gs


def raw(case_v, names):
    return {'major': case_v['major'], 'minor': case_v['minor'], 'patch': case_v['patch'],
            'pre': [rp.ident_raw(i, names) for i in case_v['pre']], 'build': [rp.ident_raw(i, names) for i in case_v['build']]}


def judge_pair(case):
    names = rp.tok_names(case)
    prog = [rp.version_step('a', case['a'], names), rp.version_step('b', case['b'], names), {'id': 'c', 'op': 'cmp', 'a': 'a', 'b': 'b'},
            {'id': 'r', 'op': 'cmp', 'a': 'b', 'b': 'a'}, {'id': 'ha', 'op': 'hash', 'v': 'a'}, {'id': 'hb', 'op': 'hash', 'v': 'b'}]
    if 'c' in case:
        prog += [rp.version_step('c3', case['c'], names), {'id': 'bc', 'op': 'cmp', 'a': 'b', 'b': 'c3'}, {'id': 'ac', 'op': 'cmp', 'a': 'a', 'b': 'c3'}]

    def judge(native):
        a, b = raw(case['a'], names), raw(case['b'], names)
        want = O.py_cmp(a, b)
        c, r = native['c'], native['r']
        txt = 'a=%s b=%s: cmp=%s (SemVer: %s) reverse=%s eq=%s partial=%s lt/le/gt/ge=%s/%s/%s/%s hash equal=%s' % (
            rp.version_text(case['a'], names), rp.version_text(case['b'], names), c['cmp'], want, r['cmp'], c['eq'], c['partial'],
            c['lt'], c['le'], c['gt'], c['ge'], native['ha'] == native['hb'])
        bad = (c['cmp'] != want or r['cmp'] != -want or c['eq'] != (want == 0) or c['partial'] != c['cmp'] or c['lt'] != (want < 0)
               or c['le'] != (want <= 0) or c['gt'] != (want > 0) or c['ge'] != (want >= 0) or (want == 0 and native['ha'] != native['hb']))
        if 'c' in case and not bad:
            bc, ac = native['bc']['cmp'], native['ac']['cmp']
            txt += ' | c=%s: cmp(b,c)=%s cmp(a,c)=%s' % (rp.version_text(case['c'], names), bc, ac)
            bad = c['cmp'] <= 0 and bc <= 0 and ac > 0
        return ('confirmed' if bad else 'mismatch'), txt
    return prog, judge


def order_group(s, L):
    h = s.harness(L=L)
    a, b = h.version('a'), h.version('b')
    dec = lambda m: {'a': h.dec_version(m, a), 'b': h.dec_version(m, b)}
    n0 = len(h.eng.sink.panics)
    c = h.cmp(a, b)
    e = h.call(h.f_veq, a, b).t
    pc = h.call(h.fn('Version', 'PartialOrd', 'partial_cmp'), a, b)
    pan = [x for _, _, x in h.panics_since(n0)]
    lt, eq = O.o_lt_eq(a, b)
    s.cover(h, 'two prereleases of one tuple with different tags', [h.same_tuple(a, b), h.is_pre(a), h.is_pre(b), NOT(eq)])
    s.prove(h, '[[Version::cmp]](a,b) is SemVer precedence (three-valued, build ignored)', [], c.tag == O.o_cmp_tag(a, b), decode=dec, replay=judge_pair)
    s.prove(h, 'a == b  <=>  cmp(a,b) is Equal', [], e == (c.tag == 1), decode=dec, replay=judge_pair)
    s.prove(h, 'partial_cmp(a,b) == Some(cmp(a,b))', [], AND(is_variant(pc, 'Some'), payload(pc, 'Some')[0].tag == c.tag), decode=dec, replay=judge_pair)
    from ..stdmodels import generic_partial
    for op, want in (('lt', c.tag == 0), ('le', c.tag != 2), ('gt', c.tag == 2), ('ge', c.tag != 0)):
        got = generic_partial(h.eng, 'Version', op, a, b, h.top, 'harness')
        s.prove(h, 'operator %s agrees with cmp' % op, [], got == want, decode=dec, replay=judge_pair)
    s.unreachable(h, 'no panic in cmp / eq / partial_cmp', [], pan, decode=dec, replay=judge_pair)
    # build metadata never matters: copies that differ only in `build`
    a2, b2 = h.version('a2'), h.version('b2')
    same = []
    for x, y in ((a, a2), (b, b2)):
        same += [x.fs[i].t == y.fs[i].t for i in range(3)]
        same.append(x.fs[4].len == y.fs[4].len)
        for i in range(x.fs[4].ty.cap):
            p, q = x.fs[4].slots[i], y.fs[4].slots[i]
            same += [p.tag == q.tag, payload(p, 0)[0].t == payload(q, 0)[0].t, payload(p, 1)[0].t == payload(q, 1)[0].t]
    c2 = h.cmp(a2, b2)
    e2 = h.call(h.f_veq, a2, b2).t
    s.prove(h, 'build metadata never changes cmp / ==', same, AND(c2.tag == c.tag, e2 == e),
            decode=lambda m: {'a': h.dec_version(m, a2), 'b': h.dec_version(m, b2)}, replay=judge_pair)


def laws_group(s, L):
    h = s.harness(L=L)
    a, b, c = h.version('a'), h.version('b'), h.version('c')
    ab, ba, bc, ac, aa = h.cmp(a, b), h.cmp(b, a), h.cmp(b, c), h.cmp(a, c), h.cmp(a, a)
    dec2 = lambda m: {'a': h.dec_version(m, a), 'b': h.dec_version(m, b)}
    dec3 = lambda m: {'a': h.dec_version(m, a), 'b': h.dec_version(m, b), 'c': h.dec_version(m, c)}
    s.prove(h, 'reflexive: cmp(a,a) is Equal', [], aa.tag == 1, decode=lambda m: {'a': h.dec_version(m, a), 'b': h.dec_version(m, a)}, replay=judge_pair)
    s.prove(h, 'antisymmetric: cmp(b,a) is the reverse of cmp(a,b)', [], ba.tag == 2 - ab.tag, decode=dec2, replay=judge_pair)
    s.prove(h, 'transitive: a<=b ∧ b<=c => a<=c', [], z3.Implies(AND(ab.tag != 2, bc.tag != 2), ac.tag != 2), decode=dec3, replay=judge_pair)
    s.prove(h, 'Equal is a congruence: a==b => cmp(a,c) == cmp(b,c)', [], z3.Implies(ab.tag == 1, ac.tag == bc.tag), decode=dec3, replay=judge_pair)


def hash_group(s, L):
    h = s.harness(L=L)
    a, b = h.version('a'), h.version('b')
    fh = h.fn('Version', 'Hash', 'hash')
    top = h.top
    outs = []
    for v in (a, b):
        top.env['@hasher'] = Sc(z3.BitVec('hasher0', 64))
        top.pc = z3.BoolVal(True)
        h.eng.inline(fh, [v, Ref('@hasher')], top, 'harness')
        outs.append(top.env['@hasher'].t)
    e = h.call(h.f_veq, a, b).t
    dec = lambda m: {'a': h.dec_version(m, a), 'b': h.dec_version(m, b)}
    s.cover(h, 'equal versions with different build metadata', [e, a.fs[3].len != b.fs[3].len])
    s.prove(h, 'a == b => hash(a) == hash(b) (so build metadata never reaches the hasher)', [], z3.Implies(e, outs[0] == outs[1]), decode=dec, replay=judge_pair, uf=True)


def kani_group(s):
    """the same three laws decided by Kani/CBMC on the compiled code (prerelease lists [] or [Numeric(n)])"""
    from .. import kani
    h = s.harness(L=1)
    a, b, c = h.version('a'), h.version('b'), h.version('c')
    ab, ba, bc, ac = h.cmp(a, b), h.cmp(b, a), h.cmp(b, c), h.cmp(a, c)
    e = h.call(h.f_veq, a, b).t
    goal = AND(ba.tag == 2 - ab.tag, e == (ab.tag == 1), z3.Implies(AND(ab.tag != 2, bc.tag != 2), ac.tag != 2))
    status, _, _ = h.check(h.wf, goal)
    kani.cross_check(s, 'k4_cmp_laws', status == 'unsat', 'Version::cmp antisymmetric, == iff Equal, transitive (three versions)')


def ident_group(s):
    """the derived Identifier impls, independent of any list length: with the slice-ordering model (lexicographic extension) these
    are what carries the list-bounded obligations above to identifier lists of any length (the extension step is the textbook
    argument, not machine-checked here)"""
    from ..values import fresh
    h = s.harness(L=1)
    wf = []
    x, y, z = fresh(h.I, 'x', wf), fresh(h.I, 'y', wf), fresh(h.I, 'z', wf)
    h.wf += wf
    fc, fe, fp = h.fn('Identifier', 'Ord', 'cmp'), h.fn('Identifier', 'PartialEq', 'eq'), h.fn('Identifier', 'PartialOrd', 'partial_cmp')
    xy, yx, yz, xz = h.call(fc, x, y), h.call(fc, y, x), h.call(fc, y, z), h.call(fc, x, z)
    e = h.call(fe, x, y).t
    pc = h.call(fp, x, y)
    lt, eq = O.ident_lt_eq(x, y)
    want = z3.If(lt, bv(0, 8), z3.If(eq, bv(1, 8), bv(2, 8)))
    s.cover(h, 'numeric vs alphanumeric identifier', [x.tag == 0, y.tag == 1])
    s.prove(h, 'Identifier::cmp: numeric below alphanumeric, numerics by value, alphanumerics by string order', [], xy.tag == want)
    s.prove(h, 'Identifier: == iff cmp is Equal; partial_cmp == Some(cmp)', [], AND(e == (xy.tag == 1), is_variant(pc, 'Some'), payload(pc, 'Some')[0].tag == xy.tag))
    s.prove(h, 'Identifier::cmp is antisymmetric and transitive', [], AND(yx.tag == 2 - xy.tag, z3.Implies(AND(xy.tag != 2, yz.tag != 2), xz.tag != 2)))


# texts of one prerelease identifier and what SemVer 11.4 makes of them: ('n', value) numeric (digits only, below 2^64), ('s',) alphanumeric
ID_CASES = [('0', ('n', 0)), ('7', ('n', 7)), ('007', ('n', 7)), ('9007199254740992', ('n', 9007199254740992)), ('9999999999999999999', ('n', 9999999999999999999)),
            ('10000000000000000000', ('n', 10 ** 19)), ('18446744073709551615', ('n', 2 ** 64 - 1)), ('18446744073709551616', ('s',)),
            ('00000000000000000005', ('n', 5)), ('0' * 30 + '7', ('n', 7)), ('123456789012345678901234', ('s',)), ('1-', ('s',)), ('-1', ('s',)), ('-', ('s',)),
            ('a', ('s',)), ('1a', ('s',)), ('0x10', ('s',)), ('1e3', ('s',)), ('A-Z', ('s',))]


def ident_parse_group(s):
    """identifier::{closure#1}: which texts become Numeric (and with which value) and which AlphaNumeric - the one place where text decides precedence.
    str::parse::<u64> is a contract stub (arbitrary Result); the closure must follow it and nothing else."""
    import re
    from ..values import fresh
    from ..engine import Clo
    from ..types import STRSLICE
    h = s.harness(L=1)
    e = h.eng
    e.tenv.string_as_slice = True
    e.tenv.cache.clear()
    parsed = {}
    CAP = 24
    from ..values import Vc, ite as vite, mk_variant
    from ..types import TVec, INTS
    raw = fresh(STRSLICE, 'raw')
    bs = [z3.BitVec('raw.byte%d' % i, 8) for i in range(CAP)]
    ln = raw.fs[2].t
    inrange = lambda b, lo, hi: AND(z3.UGE(b, ord(lo)), z3.ULE(b, ord(hi)))
    isdig = [inrange(b, '0', '9') for b in bs]
    # take_while(1.., alphanumeric or '-') hands the closure 1..CAP bytes of that alphabet (longer identifiers: outside the bound)
    h.wf += [z3.UGE(ln, 1), z3.ULE(ln, CAP)] + [OR(isdig[i], inrange(bs[i], 'a', 'z'), inrange(bs[i], 'A', 'Z'), bs[i] == ord('-')) for i in range(CAP)]
    content = Vc(TVec(INTS['u8'], CAP), ln, [Sc(b) for b in bs], CAP)
    e.str_content = lambda sv: content
    alld = AND(*[z3.Implies(z3.UGT(ln, i), isdig[i]) for i in range(CAP)])
    W = 96
    V = z3.BitVecVal(0, W)
    for i in range(CAP):
        V = z3.If(z3.UGT(ln, i), V * 10 + z3.ZeroExt(W - 8, bs[i] - ord('0')), V)
    fits = AND(alld, z3.ULT(V, z3.BitVecVal(2 ** 64, W)))

    def str_parse(eng, callee, args, dest_ts, st, where):
        # model of <u64 as FromStr> on this alphabet: Ok(decimal value) exactly for all-digit texts below 2^64 (no sign can occur), Err otherwise
        wf = []
        dt = eng.ty(dest_ts)
        v = fresh(dt, 'parse_u64', wf)
        eng.assume(wf)
        h.wf += wf
        h.wf.append(is_variant(v, 'Ok') == fits)
        h.wf.append(z3.Implies(fits, payload(v, 'Ok')[0].t == z3.Extract(63, 0, V)))
        parsed['r'] = v
        return v
    e.stubs.append((re.compile(r'^core::str::<impl str>::parse::<u64>$'), str_parse))
    bodies = [b for nm, bl in e.bodies.items() for b in bl if re.search(r'(^|::)identifier::\{closure#\d+\}$', nm)
              and len(b.args) == 2 and b.locals.get(b.args[1], '').replace(' ', '') == '&str']
    if not bodies:
        s.add(ob='identifier: classification closure found in the MIR', mode='syntactic', solver_s=0.0, kind='prove', verdict='inconclusive',
              detail='no closure of `identifier` taking &str in the MIR: the text-to-Identifier step is not where the check expects it')
        return
    r = h.call(bodies[0], Clo('identifier', []), raw)
    pr = parsed.get('r')
    if pr is None:
        s.add(ob='identifier: str::parse::<u64> decides Numeric vs AlphaNumeric', mode='syntactic', solver_s=0.0, kind='prove', verdict='inconclusive',
              detail='the classification closure does not call str::parse::<u64>')
        return
    same = lambda a, b: AND(a.fs[0].t == b.fs[0].t, a.fs[1].t == b.fs[1].t, a.fs[2].t == b.fs[2].t)

    def dec(m):
        n = m.eval(ln, model_completion=True).as_long()
        return {'text': ''.join(chr(m.eval(bs[i], model_completion=True).as_long()) for i in range(min(n, CAP)))}

    def expect(t):
        return [{'n': int(t)}] if t.isdigit() and int(t) < 2 ** 64 else [{'s': t}]

    def replay(case):
        texts = [case['text']] + [t for t, _ in ID_CASES]
        prog = [{'id': 'i%d' % i, 'op': 'version', 'text': '1.0.0-' + t} for i, t in enumerate(texts)]

        def judge(native):
            bad = []
            for i, t in enumerate(texts):
                x = native.get('i%d' % i) or {}
                pre = ((x.get('v') or {}).get('pre')) if x.get('ok') else None
                if x.get('panic') or pre != expect(t):
                    bad.append('Version::parse(%r): %s (SemVer: %s)' % ('1.0.0-' + t, 'PANIC ' + str(x.get('panic')) if x.get('panic') else 'pre_release = %r' % (pre,),
                                                                        'numeric' if 'n' in expect(t)[0] else 'alphanumeric'))
                if i == 0 and not bad:
                    pass
            return ('confirmed' if bad else 'mismatch'), '; '.join(bad[:3]) or 'neither the model text nor a corpus identifier reproduces the counterexample'
        return prog, judge
    assert all(expect(t) == ([{'n': w[1]}] if w[0] == 'n' else [{'s': t}]) for t, w in ID_CASES)
    pan = [c for _, _, c in e.sink.panics]
    s.unreachable(h, 'identifier: the classification closure cannot panic or overflow on any identifier text of up to %d bytes' % CAP, [], pan, decode=dec, replay=replay)
    s.bounds_ok(h, 'identifier classification', [])
    s.cover(h, 'a digit string of 20 characters that parses', [is_variant(pr, 'Ok'), ln == 20])
    s.cover(h, 'a digit string of 20 characters that does not fit u64', [is_variant(pr, 'Err'), ln == 20, alld])
    s.prove(h, 'identifier: every text that parses as u64 becomes Numeric with that value (so numerics compare by value, below alphanumerics)',
            [is_variant(pr, 'Ok')], AND(is_variant(r, 'Numeric'), payload(r, 'Numeric')[0].t == payload(pr, 'Ok')[0].t), decode=dec, replay=replay)
    s.prove(h, 'identifier: every other text becomes AlphaNumeric with exactly that text',
            [is_variant(pr, 'Err')], AND(is_variant(r, 'AlphaNumeric'), same(payload(r, 'AlphaNumeric')[0], raw)), decode=dec, replay=replay)
