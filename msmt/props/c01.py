"""C01 - range satisfaction follows npm range semantics: the crate's desugaring tables against node-semver 7.5.4."""
import z3
from ..engine import AND, OR, NOT, Clo
from ..types import STRSLICE
from ..values import is_variant, payload, St, Sc, bv, mk_variant, fresh, En
from .. import replay as rp
from .. import oracles as O
from .. import npm
from ..stubs import install_tokenizer_stubs

BOUNDS = {'quick': {'components': 'full u64 <= MAX_SAFE_INTEGER, every x / number shape', 'prerelease / build lists': '<= 1 identifier on comparator and probe', 'forms': 'primitive x5, bare partial, tilde (~ and ~>), caret, hyphen'},
          'thorough': {'components': 'same', 'prerelease / build lists': '<= 2', 'forms': 'same'}}
OUTSIDE = ['text -> (operator, partial): winnow tokenisation, whitespace, `v` prefixes, leading zeros, garbage dropping, look-ahead (replaced by contract stubs, DESIGN.md 3.6)',
           'comparator lists and `||` are C02', 'the loose ` - 10` hyphen form without a lower bound']
ASSUMPTIONS = ['O-npm is a transcription of node-semver 7.5.4 classes/range.js (replaceCaret, replaceTilde, replaceXRange, hyphenReplace, testSet)',
               'component() yields None for x/X/* and Some(n) with n <= MAX_SAFE_INTEGER (the latter proved from number::{closure#0} under C17/C06)',
               'partial_version is executed from its MIR with its leaf parsers stubbed']

OPS = ['Exact', 'GreaterThan', 'GreaterThanEquals', 'LessThan', 'LessThanEquals']
OPTXT = {'Exact': '=', 'GreaterThan': '>', 'GreaterThanEquals': '>=', 'LessThan': '<', 'LessThanEquals': '<='}


def groups(tier):
    L = 1 if tier == 'quick' else 2
    gs = [{'name': 'primitive-' + o, 'fn': form_group, 'args': {'form': 'primitive', 'op': o, 'L': L}} for o in OPS]
    gs += [{'name': f, 'fn': form_group, 'args': {'form': f, 'op': None, 'L': L}} for f in ('partial', 'tilde', 'tilde-gt', 'caret', 'hyphen')]
    # two comparators of one alternative through the crate's real AND-fold against node-semver's testSet over both desugarings
    singles = [('primitive', o) for o in OPS] + [('partial', None), ('tilde', None), ('caret', None)]
    pairs = [(a, b) for a in singles for b in singles]
    if tier == 'quick':
        pairs = [(('caret', None), ('primitive', 'LessThan')), (('primitive', 'GreaterThanEquals'), ('primitive', 'LessThanEquals')), (('partial', None), ('tilde', None)),
                 (('primitive', 'LessThan'), ('primitive', 'GreaterThan')), (('tilde', None), ('primitive', 'Exact'))]
    for (f1, o1), (f2, o2) in pairs:
        gs.append({'name': 'pair-%s%s+%s%s' % (f1, '-' + o1 if o1 else '', f2, '-' + o2 if o2 else ''), 'fn': pair_group, 'args': {'f1': f1, 'o1': o1, 'f2': f2, 'o2': o2, 'L': 1}})
    gs.append({'name': 'native-corpus', 'fn': corpus_group, 'args': {'n': 500 if tier == 'quick' else 3000}})
    return gs


def closure_body(e, suffix):
    c = [b for nm, bl in e.bodies.items() for b in bl if nm.endswith(suffix)]
    if len(c) != 1:
        raise Exception('closure %s: %d candidates' % (suffix, len(c)))
    return c[0]


def sym_partial(h, tag):
    """Partial produced by the real partial_version MIR over stubbed leaf parsers"""
    e = h.eng
    body = e.resolve('partial_version')
    r = h.call(body, fresh(STRSLICE, 'input_' + tag))
    h.wf.append(is_variant(r, 'Ok'))
    return payload(r, 'Ok')[0]


def structured(h, part):
    """crate Partial value -> npm.P (raw X flags)"""
    f = lambda i: part.fs[i]
    opt = lambda o: (is_variant(o, 'None'), payload(o, 'Some')[0].t)
    xM, M = opt(f(0))
    xm, m = opt(f(1))
    xp, p = opt(f(2))
    return npm.P(xM, M, xm, m, xp, p, f(3))


def dec_partial(h, m, part):
    def o(x):
        return None if m.eval(x.tag, model_completion=True).as_long() == 0 else m.eval(payload(x, 'Some')[0].t, model_completion=True).as_long()
    return {'M': o(part.fs[0]), 'm': o(part.fs[1]), 'p': o(part.fs[2]), 'pre': h.dec_idents(m, part.fs[3]), 'build': h.dec_idents(m, part.fs[4])}


def partial_text(p, names):
    c = lambda x: 'x' if x is None else str(x)
    s = '%s.%s.%s' % (c(p['M']), c(p['m']), c(p['p']))
    if p['pre']:
        s += '-' + '.'.join(rp.ident_text(i, names) for i in p['pre'])
    if p['build']:
        s += '+' + '.'.join(rp.ident_text(i, names) for i in p['build'])
    return s


def form_text(form, op, parts, names):
    if form == 'primitive':
        return OPTXT[op] + partial_text(parts[0], names)
    if form == 'partial':
        return partial_text(parts[0], names)
    if form == 'tilde':
        return '~' + partial_text(parts[0], names)
    if form == 'tilde-gt':
        return '~>' + partial_text(parts[0], names)
    if form == 'caret':
        return '^' + partial_text(parts[0], names)
    return partial_text(parts[0], names) + ' - ' + partial_text(parts[1], names)


def classify(form, op, parts):
    """coarse class of a structured comparator, used to key known findings narrowly"""
    def shape(p):
        return ''.join('x' if p[k] is None else 'n' for k in ('M', 'm', 'p')) + ('-pre' if p['pre'] else '')
    return '%s%s:%s' % (form, ('(' + OPTXT[op] + ')') if op else '', '/'.join(shape(p) for p in parts))


def form_group(s, form, op, L):
    h = s.harness(L=L, cap_bs=2)
    e = h.eng
    install_tokenizer_stubs(e)
    cx = npm.Ctx(h)
    parts = [sym_partial(h, 'a')]
    n0 = len(e.sink.panics)
    unit = Clo('form', [])
    if form == 'primitive':
        OpT = e.ty('range::Operation')
        arg = St(e.ty('(range::Operation, range::Partial)'), [mk_variant(OpT, op), parts[0]])
        r = h.call(closure_body(e, 'primitive::{closure#0}'), unit, arg)
        comps = npm.xrange(cx, OPTXT[op], structured(h, parts[0]))
    elif form == 'partial':
        r = h.call(closure_body(e, 'partial::{closure#0}'), unit, parts[0])
        comps = npm.xrange(cx, '', structured(h, parts[0]))
    elif form in ('tilde', 'tilde-gt'):
        OS = e.ty('Option<&str>')
        gt = mk_variant(OS, 'Some', [fresh(STRSLICE, 'gt')]) if form == 'tilde-gt' else mk_variant(OS, 'None')
        arg = St(e.ty('(Option<&str>, range::Partial)'), [gt, parts[0]])
        r = h.call(closure_body(e, 'tilde::{closure#0}'), unit, arg)
        comps = npm.tilde(cx, structured(h, parts[0]))
    elif form == 'caret':
        r = h.call(closure_body(e, 'caret::{closure#0}'), unit, parts[0])
        comps = npm.caret(cx, structured(h, parts[0]))
    else:
        # hyphen: run the real `parser` body; its two partials come from partial_version (lower through opt(..))
        body = [b for nm, bl in e.bodies.items() for b in bl if nm.split('::')[-1] == 'parser'][0]
        e.watch.add('partial_version')
        k0 = len(e.watch_log)
        res = h.call(body, fresh(STRSLICE, 'input_h'))
        h.wf.append(is_variant(res, 'Ok'))
        r = payload(res, 'Ok')[0]
        # the two partials the parser saw (results of the partial_version runs inside it); lower bound present
        seen = [val for nm, val in e.watch_log[k0:]]
        if len(seen) != 2:
            raise Exception('hyphen: expected two partial_version runs, saw %d' % len(seen))
        h.wf += [is_variant(x, 'Ok') for x in seen]
        parts = [payload(x, 'Ok')[0] for x in seen]
        comps = npm.hyphen(cx, structured(h, parts[0]), structured(h, parts[1]))
    pan = [c for _, _, c in h.panics_since(n0)]
    h.wf += e.stub_wf                       # contracts of the tokenizer stubs are hypotheses of every obligation
    v = h.version('v')
    bs = payload(r, 'Some')[0]
    some = is_variant(r, 'Some')
    got = h.call(h.fn('BoundSet', None, 'satisfies'), bs, v, pc=some).t
    want = npm.admits(h, comps, v)

    def dec(m):
        return {'form': form, 'op': op, 'parts': [dec_partial(h, m, p) for p in parts], 'v': h.dec_version(m, v)}

    def replay(case):
        names = rp.tok_names(case)
        text = form_text(case['form'], case['op'], case['parts'], names)
        prog = [{'id': 'R', 'op': 'range', 'text': text}, rp.version_step('v', case['v'], names), {'id': 's', 'op': 'satisfies', 'r': 'R', 'v': 'v'}]

        def judge(native):
            R = native.get('R') or {}
            ps = [{'M': p['M'], 'm': p['m'], 'p': p['p'], 'pre': [rp.ident_raw(i, names) for i in p['pre']]} for p in case['parts']]
            want_n = npm.py_admits(npm.py_comps('tilde' if case['form'] == 'tilde-gt' else case['form'], OPTXT.get(case['op']), ps), O.raw_version(case['v'], names))
            got_n = bool(native.get('s')) if R.get('ok') else False
            txt = 'range %r parses to %s; satisfies(%s)=%s, node-semver 7.5.4 admits: %s' % (text, R.get('print', R.get('kind')), rp.version_text(case['v'], names), native.get('s'), want_n)
            if 'panic' in str(native):
                return 'confirmed', txt + ' PANIC'
            return ('confirmed' if got_n != want_n else 'mismatch'), txt
        return prog, judge
    def replay_list(case):
        """the difference only shows when the comparator is combined with one that opts the probe version in: `<text> <=v` / `<text> >=v`"""
        names = rp.tok_names(case)
        text = form_text(case['form'], case['op'], case['parts'], names)
        vt = rp.version_text(case['v'], names, build=False)
        prog = [rp.version_step('v', case['v'], names)]
        for i, extra in enumerate(('<=' + vt, '>=' + vt)):
            prog += [{'id': 'R%d' % i, 'op': 'range', 'text': text + ' ' + extra}, {'id': 's%d' % i, 'op': 'satisfies', 'r': 'R%d' % i, 'v': 'v'}]

        def judge(native):
            ps = [{'M': p['M'], 'm': p['m'], 'p': p['p'], 'pre': [rp.ident_raw(i, names) for i in p['pre']]} for p in case['parts']]
            comps = npm.py_comps('tilde' if case['form'] == 'tilde-gt' else case['form'], OPTXT.get(case['op']), ps)
            rv = O.raw_version(case['v'], names)
            rv['build'] = []
            bad, txts = False, []
            for i, o in enumerate(('<=', '>=')):
                want_n = npm.py_admits(comps + [(o, rv)], rv)
                R = native.get('R%d' % i) or {}
                got_n = bool(native.get('s%d' % i)) if R.get('ok') else False
                txts.append('range %r parses to %s; satisfies(%s)=%s, node-semver 7.5.4 admits: %s' % (text + ' ' + o + vt, R.get('print', R.get('kind')), vt, got_n, want_n))
                bad = bad or got_n != want_n
            return ('confirmed' if bad else 'mismatch'), ' | '.join(txts)
        return prog, judge
    cls = lambda case: classify(case['form'], case['op'], case['parts'])
    hy = known_exclusions(s, h, form, op, parts, v, comps)
    s.cover(h, 'a prerelease probe admitted through the comparator', [some, got, h.is_pre(v)])
    s.prove(h, '%s%s: a produced interval is satisfied exactly when node-semver\'s desugaring admits the version' % (form, (' ' + OPTXT[op]) if op else ''),
            hy + [some], got == want, decode=dec, replay=replay, cls=cls)
    s.prove(h, '%s%s: the comparator is dropped (None) only when node-semver admits nothing' % (form, (' ' + OPTXT[op]) if op else ''),
            hy + [NOT(some)], NOT(want), decode=dec, replay=replay, cls=cls)
    nm = '%s%s' % (form, (' ' + OPTXT[op]) if op else '')
    wi = O.o_within(h, bs, v)
    s.prove(h, nm + ': bounds of a produced interval admit exactly the versions passing every node-semver comparator (prereleases included; needed when comparators are combined)',
            hy + [some], wi == npm.allpass(h, comps, v), decode=dec, replay=replay_list, cls=cls)
    s.prove(h, nm + ': within the bounds, the interval opts a prerelease in exactly when a node-semver comparator does', hy + [some, wi, h.is_pre(v)],
            h.gate(bs, v) == npm.optin(h, comps, v), decode=dec, replay=replay_list, cls=cls)
    s.unreachable(h, '%s: no panic / overflow in the desugaring (components <= MAX_SAFE_INTEGER)' % form, [], pan, decode=dec, replay=replay, cls=cls)
    s.bounds_ok(h, form, [])


def build_form(h, e, cx, form, op, part):
    unit = Clo('form', [])
    if form == 'primitive':
        OpT = e.ty('range::Operation')
        arg = St(e.ty('(range::Operation, range::Partial)'), [mk_variant(OpT, op), part])
        return h.call(closure_body(e, 'primitive::{closure#0}'), unit, arg), npm.xrange(cx, OPTXT[op], structured(h, part))
    if form == 'partial':
        return h.call(closure_body(e, 'partial::{closure#0}'), unit, part), npm.xrange(cx, '', structured(h, part))
    if form == 'tilde':
        arg = St(e.ty('(Option<&str>, range::Partial)'), [mk_variant(e.ty('Option<&str>'), 'None'), part])
        return h.call(closure_body(e, 'tilde::{closure#0}'), unit, arg), npm.tilde(cx, structured(h, part))
    if form == 'caret':
        return h.call(closure_body(e, 'caret::{closure#0}'), unit, part), npm.caret(cx, structured(h, part))
    raise ValueError(form)


def pair_group(s, f1, o1, f2, o2, L):
    """`c1 c2` (one alternative): the crate's fold of the two produced intervals vs node-semver's testSet over both desugarings"""
    from ..values import Vc
    h = s.harness(L=L, cap_bs=2, caps={'Option': 2})
    e = h.eng
    install_tokenizer_stubs(e)
    cx = npm.Ctx(h)
    p1, p2 = sym_partial(h, 'a'), sym_partial(h, 'b')
    r1, c1 = build_form(h, e, cx, f1, o1, p1)
    r2, c2 = build_form(h, e, cx, f2, o2, p2)
    h.wf += e.stub_wf
    v = h.version('v')
    VT = e.ty('Vec<Option<range::BoundSet>>')
    vec = Vc(VT, bv(2, 64), [r1, r2] + [None] * (VT.cap - 2), 2)
    fold = [b for nm, bl in e.bodies.items() for b in bl if nm.endswith('range::{closure#0}') and '::{closure#0}::{closure#0}' not in nm and 'range_set' not in nm][0]
    res = h.call(fold, Clo('fold', []), vec)
    got = h.call(h.fn('Range', None, 'satisfies'), St(h.R, [res]), v).t
    want = npm.admits(h, c1 + c2, v)
    hy = known_exclusions(s, h, f1, o1, [p1], v, c1 + c2) + known_exclusions(s, h, f2, o2, [p2], v, [])

    def dec(m):
        return {'forms': [[f1, o1], [f2, o2]], 'parts': [dec_partial(h, m, p1), dec_partial(h, m, p2)], 'v': h.dec_version(m, v)}

    def replay(case):
        names = rp.tok_names(case)
        texts = [form_text(f, o, [p], names) for (f, o), p in zip(case['forms'], case['parts'])]
        prog = [{'id': 'R', 'op': 'range', 'text': ' '.join(texts)}, rp.version_step('v', case['v'], names), {'id': 's', 'op': 'satisfies', 'r': 'R', 'v': 'v'}]

        def judge(native):
            comps = []
            for (f, o), p in zip(case['forms'], case['parts']):
                comps += npm.py_comps(f, OPTXT.get(o), [{'M': p['M'], 'm': p['m'], 'p': p['p'], 'pre': [rp.ident_raw(i, names) for i in p['pre']]}])
            want_n = npm.py_admits(comps, O.raw_version(case['v'], names))
            R = native.get('R') or {}
            got_n = bool(native.get('s')) if R.get('ok') else False
            txt = 'range %r parses to %s; satisfies(%s)=%s, node-semver 7.5.4 admits: %s' % (prog[0]['text'], R.get('print', R.get('kind')), rp.version_text(case['v'], names), got_n, want_n)
            return ('confirmed' if got_n != want_n else 'mismatch'), txt
        return prog, judge
    nm = '%s%s %s%s' % (f1, ' ' + OPTXT[o1] if o1 else '', f2, ' ' + OPTXT[o2] if o2 else '')
    s.cover(h, 'both comparators valid and a prerelease satisfies the pair', [is_variant(r1, 'Some'), is_variant(r2, 'Some'), got, h.is_pre(v)])
    s.prove(h, '`%s` as one alternative is satisfied exactly when node-semver admits the version under both desugarings' % nm, hy, got == want, decode=dec, replay=replay)
    s.bounds_ok(h, nm, [])


def hyphen_partials(h, e, k0):
    """the two Partial values inside the hyphen parser: rebuilt from the Partial-typed Ok payloads logged by partial_version runs"""
    parts = getattr(e, 'partials_seen', [])
    if len(parts) < 2:
        raise Exception('hyphen: expected two partial_version results, saw %d' % len(parts))
    return parts[-2:]


def prerelease_of(v, M, m, p):
    return AND(v.fs[4].len != 0, v.fs[0].t == M, v.fs[1].t == m, v.fs[2].t == p)


def known_exclusions(s, h, form, op, parts, v, results=()):
    """hypotheses that cut out exactly the listed open findings (known_findings.json) while they still reproduce;
    `results` are node-semver's primitive comparators of the form(s)"""
    out = []
    if 'gte-zero-not-neutral' in s.known:
        # node-semver rewrites the comparator `>=0.0.0` to `` (any); the crate keeps 0.0.0 as an inclusive lower bound (also for `*`), so
        # prereleases of 0.0.0 that another comparator of the same alternative opts in are rejected.  Narrow class: the probe is a
        # prerelease of 0.0.0 AND node-semver's desugaring of the comparator contains `*` or `>=0.0.0`
        hit = []
        for g, o, c in results:
            if o == 'ANY':
                hit.append(g)
            elif o == '>=':
                hit.append(AND(g, c.fs[0].t == 0, c.fs[1].t == 0, c.fs[2].t == 0, c.fs[4].len == 0))
        out.append(NOT(AND(prerelease_of(v, 0, 0, 0), OR(*hit))))
    if 'lt-major-only' in s.known and form == 'primitive' and op == 'LessThan':
        # `<M` is held as `<M.0.0` (node-semver: `<M.0.0-0`): differs only on prereleases of M.0.0
        p = parts[0]
        M = payload(p.fs[0], 'Some')[0].t
        out.append(NOT(AND(is_variant(p.fs[0], 'Some'), is_variant(p.fs[1], 'None'), prerelease_of(v, M, 0, 0))))
    return out


def _witness(text, vtext, want):
    def w():
        prog = [{'id': 'R', 'op': 'range', 'text': text}, {'id': 'v', 'op': 'version', 'text': vtext}, {'id': 's', 'op': 'satisfies', 'r': 'R', 'v': 'v'}]

        def judge(native):
            R = native.get('R') or {}
            got = bool(native.get('s')) if R.get('ok') else False
            return ('confirmed' if got != want else 'fixed'), 'range %r parses to %s; satisfies(%s)=%s, node-semver 7.5.4 admits: %s' % (text, R.get('print', R.get('kind')), vtext, got, want)
        return prog, judge
    return w


KNOWN = {
    'gte-zero-not-neutral': _witness('* <=0.0.0-a', '0.0.0-a', True),
    'lt-major-only': _witness('<1 <=1.0.0-beta', '1.0.0-beta', False),
}


# ---------------------------------------------------------------------------------------------- native spot check of the textual half
def corpus_group(s, n=500):
    """Sampling, not a solver verdict: range TEXTS generated from structured comparators (operators with blanks, `v` prefixes, leading
    zeros, x / X / *, partial lengths, prerelease with and without hyphen, tilde / ~>, caret, hyphen ranges, space-joined lists, `||`,
    dropped garbage tokens) are parsed natively and their satisfies() answers compared with O-npm's Python twin."""
    import random
    rng = random.Random(s.seed * 1009 + 5)
    nums = [0, 1, 2, 3, 10]
    pres = [[], [], [{'s': 'alpha'}], [{'n': 0}], [{'s': 'beta'}, {'n': 2}]]

    def partial():
        shape = rng.choice(['n', 'nn', 'nnn', 'nnn', 'nnn', 'x', 'nx', 'nnx', 'nxx'])
        comp = [rng.choice(nums) if c == 'n' else None for c in shape] + [None] * (3 - len(shape))
        pre = rng.choice(pres) if shape == 'nnn' else []
        return {'M': comp[0], 'm': comp[1], 'p': comp[2], 'pre': pre, 'len': len(shape)}

    def ptext(p):
        out = []
        for i, k in enumerate(('M', 'm', 'p')):
            if i >= p['len']:
                break
            v = p[k]
            out.append(rng.choice(['x', 'X', '*']) if v is None else (rng.choice(['', '0', '00']) + str(v)))
        t = rng.choice(['', '', '', 'v']) + '.'.join(out)
        if p['pre']:
            ids = '.'.join(str(i['n']) if 'n' in i else i['s'] for i in p['pre'])
            t += ('' if ('s' in p['pre'][0] and rng.random() < 0.25) else '-') + ids
        if p['len'] == 3 and p['p'] is not None and rng.random() < 0.15:
            t += '+build.7'
        return t

    def comparator():
        form = rng.choice(['primitive', 'primitive', 'primitive', 'partial', 'tilde', 'tilde-gt', 'caret'])
        p = partial()
        if form == 'primitive':
            op = rng.choice(OPS)
            return ('primitive', op, [p]), OPTXT[op] + rng.choice(['', '', ' ', '  ']) + ptext(p)
        if form == 'partial':
            return ('partial', None, [p]), ptext(p)
        if form == 'tilde':
            return ('tilde', None, [p]), '~' + rng.choice(['', ' ']) + ptext(p)
        if form == 'tilde-gt':
            return ('tilde', None, [p]), '~>' + rng.choice(['', ' ']) + ptext(p)
        return ('caret', None, [p]), '^' + rng.choice(['', ' ']) + ptext(p)

    def alternative():
        if rng.random() < 0.2:
            a, b = partial(), partial()
            return [('hyphen', None, [a, b])], ptext(a) + ' - ' + ptext(b)
        comps, texts = [], []
        for _ in range(rng.choice([1, 1, 2, 2, 3])):
            c, t = comparator()
            comps.append(c)
            texts.append(t)
            if rng.random() < 0.15:
                texts.insert(rng.randrange(len(texts) + 1), rng.choice(['foo', '1.y', 'bar!', '1.2-beta', '2-rc', '1.2.3.4', '>=1.2-0']))
        return comps, rng.choice([' ', ' ', '  ']).join(texts)
    probes = [{'major': a, 'minor': b, 'patch': c, 'pre': pre, 'build': []} for a in (0, 1, 2, 3, 10) for b in (0, 1, 2) for c in (0, 1, 3) for pre in ([], [{'s': 'alpha'}], [{'n': 0}], [{'s': 'beta'}, {'n': 2}], [{'s': 'rc'}])]
    cases, prog = [], []
    for i in range(n):
        alts, texts = [], []
        for _ in range(rng.choice([1, 1, 1, 2, 3])):
            a, t = alternative()
            alts.append(a)
            texts.append(t)
        text = rng.choice([' || ', '||', ' ||', '|| ']).join(texts)
        vs = rng.sample(probes, 6)
        cases.append((text, alts, vs))
        prog.append({'id': 'r%d' % i, 'op': 'range', 'text': text})
        for j, v in enumerate(vs):
            prog.append(dict(rp.version_step('v%d_%d' % (i, j), {'major': v['major'], 'minor': v['minor'], 'patch': v['patch'], 'pre': [], 'build': []}, {}), pre=v['pre']))
            prog.append({'id': 's%d_%d' % (i, j), 'op': 'satisfies', 'r': 'r%d' % i, 'v': 'v%d_%d' % (i, j)})
    native = rp.run(s.binary, [prog], timeout=300)[0]
    bad, n_eval, badprog = [], 0, []
    for i, (text, alts, vs) in enumerate(cases):
        R = native.get('r%d' % i) or {}
        for j, v in enumerate(vs):
            # stay outside the two open known findings (they are reported by their own witnesses)
            if v['pre'] and (v['major'], v['minor'], v['patch']) == (0, 0, 0) and any(
                    c[0] != 'hyphen' and c[2][0]['M'] in (None, 0) and not (c[0] == 'primitive' and c[1] in ('GreaterThan', 'LessThan') and c[2][0]['M'] is None) or
                    c[0] == 'hyphen' and c[2][0]['M'] in (None, 0) for a in alts for c in a):
                continue
            if v['pre'] and v['minor'] == 0 and v['patch'] == 0 and any(c[0] == 'primitive' and c[1] == 'LessThan' and c[2][0]['M'] == v['major'] and c[2][0]['m'] is None for a in alts for c in a):
                continue
            want = False
            for a in alts:
                comps = []
                for form, op, parts in a:
                    comps += npm.py_comps(form, OPTXT.get(op), parts)
                if npm.py_admits(comps, v):
                    want = True
            got = bool(native.get('s%d_%d' % (i, j))) if R.get('ok') else False
            n_eval += 1
            if got != want:
                badprog.extend([{'id': 'r', 'op': 'range', 'text': text}] if not badprog else [])
                bad.append('range %r (parsed: %s) vs %s: satisfies=%s, node-semver 7.5.4: %s' % (text, R.get('print', R.get('kind')), rp.version_text(v, {}) if not v['pre'] else '%d.%d.%d-%s' % (
                    v['major'], v['minor'], v['patch'], '.'.join(str(x.get('n', x.get('s'))) for x in v['pre'])), got, want))
    s.validated += n_eval
    s.add(ob='native spot check of the textual half: %d generated range texts x 6 versions against O-npm (sampling; tokenisation is outside the solver claim)' % n, mode='native', solver_s=0.0, kind='prove',
          verdict='violated' if bad else 'holds', detail='; '.join(bad[:3]), case={'texts': n, 'evaluations': n_eval, 'sample': [c[0] for c in cases[:5]]}, program=badprog or None, native=None)
