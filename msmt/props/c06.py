"""C06 - no input makes an encoded operation panic or overflow (debug assertions and overflow checks on)."""
import z3
from ..engine import AND, OR, NOT
from ..values import is_variant, payload
from .. import replay as rp
from .setops import bits_for, fnr, decode_ab, prog_ab, built
from . import c01, c03, c04, c07, c08, c09, c10, c11, c14, c15, c16, c17, c18

BOUNDS = {'quick': 'the bounds of the groups reused from C01, C03, C04, C07-C11, C14, C16-C18 (quick tier)', 'thorough': 'the same groups at their thorough bounds plus depth-2 compositions'}
OUTSIDE = ['panics inside the winnow grammar (Version::parse / Range::parse proper), Display / Debug / miette rendering, location() slicing: only spot-checked natively on a corpus',
           'the linear-time claim (no solver handle on time)', 'inputs outside the bounds of the reused groups']
ASSUMPTIONS = ['panic sources encoded: assert(overflow) terminators, Option::unwrap on None, unreachable!/panic! calls, index out of range, debug_assert!; each must be unsatisfiable under the representation invariant',
               'MIR dumped with -C debug-assertions=on -C overflow-checks=on; rustc\'s own pointer alignment / null checks are switched off in the dump (allocator guarantees, not crate code)']

CORPUS = ['2.1 - 3.0 || <2.3.2 <1.0 =3.2.1-0', '=3.1.0-0', '*', '', 'x', '>=1.2.3 <1.0.0', '<1.2.3', '<=1.2.3', '>1.0.0 <1.0.1', '1.2.3 - 2', '^0.0', '~> 1',
          '>x', '<*', '1 - *', '* - 1', '>=0.0.0-0', '<0.0.0-0', '900719925474099.900719925474099.900719925474099', '^900719925474099', '~900719925474099.900719925474099',
          '>900719925474099', '<=900719925474099', '900719925474099.x', 'é', '1.2.3\n||\n4', ' ', '||', '|| 1', '1 ||', '1.2.3-a.b.c+d.e', '>=1.0.0-0 <1.0.0-0.0', '=1.0.0+b', '1.2.3-' + 'a' * 255 + 'é']
VERSION_ERRORS = ['1.2.3-' + 'a' * 255 + 'é', '1' * 300, '1.2.', 'é']
VERSIONS = ['0.0.0', '0.0.0-0', '1.2.3', '1.0.0-0.0', '900719925474099.900719925474099.900719925474099', '1.0.1-5', '2.0.0', '3.1.0-0', '3.2.1-0']


def wrap(fn, **kw):
    def g(s, **args):
        s.only_unreachable = True
        return fn(s, **args)
    return g


def groups(tier):
    gs = []

    def take(mod, pred=lambda n: True, prefix=None):
        for g in mod.groups(tier):
            if pred(g['name']):
                gs.append({'name': '%s:%s' % (prefix or mod.__name__.split('.')[-1], g['name']), 'fn': wrap(g['fn']), 'args': g.get('args', {}), 'timeout_s': g.get('timeout_s')})
    take(c07, lambda n: n.startswith('rank'))
    take(c08, lambda n: n.startswith('rank'))
    take(c09)
    take(c10, lambda n: n.startswith('rank'))
    take(c03, lambda n: n.startswith('interval') or n.startswith('range'))
    take(c11)
    take(c14, lambda n: n.startswith('hybrid'))
    take(c04, lambda n: n.startswith('order') or n == 'identifier-parse')
    take(c16)
    take(c18)
    take(c01)
    take(c17, lambda n: n in ('version-parse', 'range-parse', 'number-content'))
    if tier != 'quick':
        take(c15, lambda n: n == 'depth2-1x1x1')
    gs.append({'name': 'range-any', 'fn': any_group, 'args': {}})
    gs.append({'name': 'native-corpus', 'fn': corpus_group, 'args': {}})
    return gs


def any_group(s):
    h = s.harness(L=1, cap_bs=2)
    f = h.fn('Range', None, 'any')
    n0 = len(h.eng.sink.panics)
    r = h.call(f)
    def replay(case):
        prog = [{'id': 'R', 'op': 'range', 'text': '*any*'}]
        return prog, (lambda native: ('confirmed', 'Range::any() panicked: %s' % native['R']) if 'panic' in str(native.get('R')) else ('mismatch', str(native.get('R'))))
    s.unreachable(h, 'Range::any(): the unwrap of BoundSet::new(unbounded, unbounded) cannot fail', [], [c for _, _, c in h.panics_since(n0)], decode=lambda m: {}, replay=replay)
    s.prove(h, 'Range::any() is the single unbounded interval', [], AND(r.fs[0].len == 1, h.lower_pred(r.fs[0].slots[0]).tag == 2, h.upper_pred(r.fs[0].slots[0]).tag == 2)) if False else None


def corpus_group(s):
    """native spot check (sampling, not a verdict of the solver): every operation on every pair of corpus ranges, errors included"""
    prog = []
    for i, t in enumerate(CORPUS):
        prog.append({'id': 'r%d' % i, 'op': 'range', 'text': t})
        prog.append({'id': 'rr%d' % i, 'op': 'render', 'x': 'r%d!err' % i})
        prog.append({'id': 'p%d' % i, 'op': 'print', 'x': 'r%d' % i})
        prog.append({'id': 'm%d' % i, 'op': 'min_version', 'r': 'r%d' % i})
    for j, t in enumerate(VERSIONS):
        prog.append({'id': 'v%d' % j, 'op': 'version', 'text': t})
    for j, t in enumerate(VERSION_ERRORS):
        prog.append({'id': 've%d' % j, 'op': 'version', 'text': t})
        prog.append({'id': 'vr%d' % j, 'op': 'render', 'x': 've%d!err' % j})
    vids = ['v%d' % j for j in range(len(VERSIONS))]
    n = 0
    for i in range(len(CORPUS)):
        prog.append({'id': 'mx%d' % i, 'op': 'max_satisfying', 'r': 'r%d' % i, 'vs': vids})
        for j in range(len(VERSIONS)):
            prog.append({'id': 's%d_%d' % (i, j), 'op': 'satisfies', 'r': 'r%d' % i, 'v': 'v%d' % j})
        for k in range(len(CORPUS)):
            for op in ('intersect', 'difference', 'allows_any', 'allows_all'):
                prog.append({'id': '%s%d_%d' % (op[0] + op[-1], i, k), 'op': op, 'a': 'r%d' % i, 'b': 'r%d' % k})
                n += 1
    for j in range(len(VERSIONS)):
        for k in range(len(VERSIONS)):
            prog.append({'id': 'd%d_%d' % (j, k), 'op': 'diff', 'a': 'v%d' % j, 'b': 'v%d' % k})
    native = rp.run(s.binary, [prog], timeout=300)[0]
    bad = ['%s: %s' % (k, v) for k, v in native.items() if 'panic' in str(v).lower() and 'PANIC' not in str(v)]
    bad += ['%s: location() panicked' % k for k, v in native.items() if 'PANIC' in str(v)]
    s.validated += len(native)
    s.add(ob='native spot check: %d binary operations, satisfies / min_version / max_satisfying / diff / print / error accessors over a corpus of %d range texts and %d versions, debug profile (overflow checks on)' % (n, len(CORPUS), len(VERSIONS)),
          mode='native', solver_s=0.0, kind='prove', verdict='violated' if bad else 'holds', detail='; '.join(bad[:4]), case={'steps': len(prog)}, program=prog if bad else None, native=None)
