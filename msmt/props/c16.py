"""C16 - Version::diff names the release-type difference, symmetrically."""
import z3
from ..engine import AND, OR, NOT
from ..values import is_variant, payload
from .. import replay as rp
from .. import oracles as O
from .c04 import raw

from ..validate import validation_group
BOUNDS = {'quick': {'identifier_list_len': 1, 'components': 'full u64 <= MAX_SAFE_INTEGER'}, 'thorough': {'identifier_list_len': 5, 'components': 'full u64 <= MAX_SAFE_INTEGER'}}
OUTSIDE = ['VersionDiff Display strings (core::fmt)', 'identifier lists longer than the bound']
ASSUMPTIONS = ['O-diff is a transcription of node-semver 7.5.4 functions/diff.js (the version pinned by the repository\'s pnpm-lock.yaml)',
               'O-order (SemVer 2.0.0 section 11) decides which version is the higher one']


def groups(tier):
    L = 1 if tier == 'quick' else 5
    gs = [{'name': 'diff-L%d' % L, 'fn': diff_group, 'args': {'L': L}}, {'name': 'display-names', 'fn': display_group, 'args': {}}]
    if tier != 'quick':
        gs.append({'name': 'kani-k2', 'fn': kani_group, 'args': {}, 'timeout_s': 1200})
    return gs + [validation_group(('diff',), tier)]


def judge_diff(case):
    names = rp.tok_names(case)
    prog = [rp.version_step('a', case['a'], names), rp.version_step('b', case['b'], names),
            {'id': 'ab', 'op': 'diff', 'a': 'a', 'b': 'b'}, {'id': 'ba', 'op': 'diff', 'a': 'b', 'b': 'a'}, {'id': 'c', 'op': 'cmp', 'a': 'a', 'b': 'b'}]
    if 'a2' in case:
        prog += [rp.version_step('a2', case['a2'], names), rp.version_step('b2', case['b2'], names), {'id': 'ab2', 'op': 'diff', 'a': 'a2', 'b': 'b2'}]

    def judge(native):
        want = O.py_diff(raw(case['a'], names), raw(case['b'], names))
        txt = 'a=%s b=%s: a.diff(b)=%s b.diff(a)=%s node-semver 7.5.4: %s' % (rp.version_text(case['a'], names), rp.version_text(case['b'], names), native['ab'], native['ba'], want)
        bad = native['ab'] != want or native['ba'] != want or ((native['ab'] == 'none') != (native['c']['cmp'] == 0))
        if 'ab2' in native and not bad:
            txt += ' | with other build metadata: %s' % native['ab2']
            bad = native['ab2'] != native['ab']
        return ('confirmed' if bad else 'mismatch'), txt
    return prog, judge


def diff_group(s, L):
    h = s.harness(L=L)
    a, b = h.version('a'), h.version('b')
    f = h.fn('Version', None, 'diff')
    n0 = len(h.eng.sink.panics)
    ab, ba = h.call(f, a, b), h.call(f, b, a)
    pan = [c for _, _, c in h.panics_since(n0)]
    dec = lambda m: {'a': h.dec_version(m, a), 'b': h.dec_version(m, b)}
    none, code = O.o_diff(a, b)
    c = h.cmp(a, b)
    code_of = lambda o: payload(o, 'Some')[0].tag
    for i, nm in enumerate(O.DIFF_NAMES):
        s.cover(h, 'diff = %s reachable' % nm, [is_variant(ab, 'Some'), code_of(ab) == i])
    s.prove(h, 'a.diff(b) == b.diff(a)', [], AND(ab.tag == ba.tag, z3.Implies(is_variant(ab, 'Some'), code_of(ab) == code_of(ba))), decode=dec, replay=judge_diff)
    s.prove(h, 'None exactly when a and b are equal in precedence', [], is_variant(ab, 'None') == (c.tag == 1), decode=dec, replay=judge_diff)
    s.prove(h, 'a.diff(b) is the release type node-semver 7.5.4 reports', [], AND(is_variant(ab, 'None') == none, z3.Implies(NOT(none), code_of(ab) == code)), decode=dec, replay=judge_diff)
    s.unreachable(h, 'no panic in diff', [], pan, decode=dec, replay=judge_diff)
    a2, b2 = h.version('a2'), h.version('b2')
    same = []
    for x, y in ((a, a2), (b, b2)):
        same += [x.fs[i].t == y.fs[i].t for i in range(3)]
        same.append(x.fs[4].len == y.fs[4].len)
        for i in range(x.fs[4].ty.cap):
            p, q = x.fs[4].slots[i], y.fs[4].slots[i]
            same += [p.tag == q.tag, payload(p, 0)[0].t == payload(q, 0)[0].t, payload(p, 1)[0].t == payload(q, 1)[0].t]
    ab2 = h.call(f, a2, b2)
    s.prove(h, 'build metadata never influences diff', same, AND(ab.tag == ab2.tag, z3.Implies(is_variant(ab, 'Some'), code_of(ab) == code_of(ab2))),
            decode=lambda m: {'a': h.dec_version(m, a), 'b': h.dec_version(m, b), 'a2': h.dec_version(m, a2), 'b2': h.dec_version(m, b2)}, replay=judge_diff)


def kani_group(s):
    from .. import kani
    h = s.harness(L=1)
    a, b = h.version('a'), h.version('b')
    f = h.fn('Version', None, 'diff')
    ab, ba = h.call(f, a, b), h.call(f, b, a)
    c = h.cmp(a, b)
    code_of = lambda o: payload(o, 'Some')[0].tag
    goal = AND(ab.tag == ba.tag, z3.Implies(is_variant(ab, 'Some'), code_of(ab) == code_of(ba)), is_variant(ab, 'None') == (c.tag == 1))
    status, _, _ = h.check(h.wf, goal)
    kani.cross_check(s, 'k2_diff_sym', status == 'unsat', 'Version::diff symmetric and None exactly at Equal')


def display_group(s):
    """native spot check (core::fmt is outside the encoding): each VersionDiff variant prints as node-semver's release-type name"""
    pairs = [('1.2.3', '2.0.0', 'major'), ('1.2.3', '1.3.0', 'minor'), ('1.2.3', '1.2.4', 'patch'), ('1.2.3', '2.0.0-rc', 'premajor'),
             ('1.2.3', '1.3.0-rc', 'preminor'), ('1.2.3', '1.2.4-rc', 'prepatch'), ('1.2.3-a', '1.2.3-b', 'prerelease'), ('1.2.3', '1.2.3+b', 'none')]
    prog = []
    for i, (a, b, _) in enumerate(pairs):
        prog += [{'id': 'a%d' % i, 'op': 'version', 'text': a}, {'id': 'b%d' % i, 'op': 'version', 'text': b}, {'id': 'd%d' % i, 'op': 'diff', 'a': 'a%d' % i, 'b': 'b%d' % i}]
    native = rp.run(s.binary, [prog])[0]
    bad = ['%s vs %s prints %r, expected %r' % (a, b, native.get('d%d' % i), w) for i, (a, b, w) in enumerate(pairs) if native.get('d%d' % i) != w]
    s.validated += len(pairs)
    s.add(ob='VersionDiff prints as node-semver\'s release-type names (native spot check, %d pairs)' % len(pairs), mode='native', solver_s=0.0, kind='prove',
          verdict='violated' if bad else 'holds', detail='; '.join(bad[:3]), case={'pairs': len(pairs)}, program=prog if bad else None, native=None)
