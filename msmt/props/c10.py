"""C10 - allows_all(A, B) = true guarantees inclusion (B a single alternative)."""
import z3
from ..engine import AND, OR, NOT
from ..values import is_variant, payload
from .. import replay as rp
from .setops import premise_group, bits_for, fnr, decode_ab, prog_ab, built

from ..validate import validation_group
BOUNDS = {'quick': {'alternatives_of_A': '1..2', 'alternatives_of_B': 1}, 'thorough': {'alternatives_of_A': '1..6', 'alternatives_of_B': 1}}
OUTSIDE = ['multi-alternative B (deliberately left out by the property)', 'parser / Display', 'more alternatives than the bound']
ASSUMPTIONS = ['rank mode is sound given C04', 'std models are transcriptions of the pinned nightly rust-src', 'every BoundSet is built by BoundSet::new']


def groups(tier):
    K = 2 if tier == 'quick' else 6
    gs = [{'name': 'rank-%dx1' % ka, 'fn': rank_group, 'rank_fallback': True, 'args': {'ka': ka}} for ka in range(1, K + 1)]
    gs += [{'name': 'self-%d' % ka, 'fn': self_group, 'args': {'ka': ka}} for ka in range(1, K + 1)]
    gs += [{'name': 'hybrid-%dx1' % ka, 'fn': hybrid_group, 'args': {'ka': ka}} for ka in range(1, K + 1)]
    gs.append(validation_group(('allows_all',), tier))
    gs.append(premise_group(tier))
    return gs


def judge_all(case):
    prog, names = prog_ab(case)
    prog += [{'id': 'all', 'op': 'allows_all', 'a': 'A', 'b': 'B'}, {'id': 'any', 'op': 'allows_any', 'a': 'A', 'b': 'B'},
             {'id': 'D', 'op': 'difference', 'a': 'B', 'b': 'A'}, {'id': 'self', 'op': 'allows_all', 'a': 'A', 'b': 'A'},
             {'id': 'sA', 'op': 'satisfies', 'r': 'A', 'v': 'v'}, {'id': 'sB', 'op': 'satisfies', 'r': 'B', 'v': 'v'}]

    def judge(native):
        ok, why = built(native, prog)
        if not ok:
            return 'unconstructible', why
        for k in ('all', 'any', 'D', 'self'):
            if 'panic' in str(native.get(k)):
                return 'confirmed', '%s panicked: %s' % (k, native[k])
        al, an, dsome = native['all'], native['any'], (native.get('D') or {}).get('some')
        txt = 'A=%s B=%s v=%s: A.allows_all(B)=%s A.allows_any(B)=%s B.difference(A)=%s A.allows_all(A)=%s satisfies(v): A=%s B=%s' % (
            prog[0]['text'], prog[1]['text'], rp.version_text(case['v'], names), al, an, (native.get('D') or {}).get('print'), native['self'], native['sA'], native['sB'])
        single = len(case['A']) == 1
        bad = (al and not an) or (al and native['sB'] and not native['sA'] and not case['v']['pre']) or (not native['self']) or (single and al != (not dsome))
        return ('confirmed' if bad else 'mismatch'), txt
    return prog, judge


def rank_group(s, ka, hybrid=False, concrete=False):
    h = s.harness(L=1, cap_bs=max(2 * ka, 2), rank_bits=(0 if concrete else bits_for(2 * (ka + 1) + 1)), hybrid=hybrid, field_bits=(3 if hybrid else 0))
    s.ri_sites(h)
    A, _ = h.range_('A', ka, allow_any=True)
    B, Bbs = h.range_('B', 1, allow_any=True)
    v = h.version('v')
    n0 = len(h.eng.sink.panics)
    al = h.call(fnr(h, 'allows_all'), A, B).t
    pan = [c for _, _, c in h.panics_since(n0)]
    an = h.call(fnr(h, 'allows_any'), A, B).t
    dec = decode_ab(h, A, B, v)
    s.cover(h, 'allows_all true reachable', [al])
    s.cover(h, 'allows_all false reachable with overlap', [NOT(al), an])
    s.prove(h, 'allows_all(A,B) => every version within B is within A', [], z3.Implies(AND(al, h.adm(B, v)), h.adm(A, v)), decode=dec, replay=judge_all)
    s.prove(h, 'allows_all(A,B) => allows_any(A,B)', [], z3.Implies(al, an), decode=dec, replay=judge_all)
    if ka == 1:
        D = h.call(fnr(h, 'difference'), B, A)
        s.prove(h, 'single-alternative A: allows_all(A,B) <=> B.difference(A) is None', [], al == is_variant(D, 'None'), decode=dec, replay=judge_all)
    s.unreachable(h, 'no panic in allows_all', [], pan, decode=dec, replay=judge_all)
    s.bounds_ok(h, 'allows_all %dx1' % ka, [])


def self_group(s, ka):
    h = s.harness(L=1, cap_bs=max(2 * ka, 2), rank_bits=bits_for(2 * ka + 1))
    A, _ = h.range_('A', ka, allow_any=True)
    v = h.version('v')
    al = h.call(fnr(h, 'allows_all'), A, A).t
    s.prove(h, 'every range allows all of itself (%d alternatives)' % ka, [], al, decode=decode_ab(h, A, A, v), replay=judge_all)


def hybrid_group(s, ka):
    """release versions through the real satisfies"""
    h = s.harness(L=1, cap_bs=max(2 * ka, 2), rank_bits=bits_for(2 * (ka + 1) + 1), hybrid=True)
    A, _ = h.range_('A', ka, allow_any=True)
    B, _ = h.range_('B', 1, allow_any=True)
    v = h.version('v')
    al = h.call(fnr(h, 'allows_all'), A, B).t
    sA, sB = h.call(fnr(h, 'satisfies'), A, v).t, h.call(fnr(h, 'satisfies'), B, v).t
    s.cover(h, 'allows_all and a release satisfying B', [al, sB, NOT(h.is_pre(v))])
    s.prove(h, 'allows_all(A,B) => every release version satisfying B satisfies A', [NOT(h.is_pre(v))], z3.Implies(AND(al, sB), sA), decode=decode_ab(h, A, B, v), replay=judge_all)
