"""C03 - a prerelease satisfies a range only via a same-tuple prerelease comparator; build metadata never matters."""
import z3
from ..engine import AND, OR, NOT
from ..values import is_variant, payload, St
from .. import replay as rp
from .. import oracles as O
from .setops import premise_group, constructor_group, bits_for, fnr, decode_ab, prog_ab, built

from ..validate import validation_group
BOUNDS = {'quick': {'single interval': 'concrete order, identifier lists <= 1, components full u64 <= MAX_SAFE_INTEGER', 'ranges': '1..2 alternatives, hybrid mode (identifiers abstract)'},
          'thorough': {'single interval': 'identifier lists <= 3 and <= 4', 'ranges': '1..6 alternatives'}}
OUTSIDE = ['which comparator texts produce which bounds (parser; the generated -0 bounds are covered structurally under C01)', 'identifier lists longer than the bound in the concrete groups']
ASSUMPTIONS = ['O-sat: within the bounds (SemVer precedence, O-order) and, for a prerelease, some bound of the alternative is a prerelease with the same major.minor.patch',
               'hybrid groups are sound given C04 ([[Version::cmp]] = O-order)']


def groups(tier):
    L = 1 if tier == 'quick' else 3
    K = 2 if tier == 'quick' else 6
    gs = [{'name': 'interval-L%d' % L, 'fn': interval_group, 'args': {'L': L}},
          {'name': 'build-L%d' % min(L, 2), 'fn': build_group, 'args': {'L': min(L, 2)}}]
    if tier != 'quick':
        gs.append({'name': 'interval-L1', 'fn': interval_group, 'args': {'L': 1}})
        gs.append({'name': 'interval-L4', 'fn': interval_group, 'args': {'L': 4}})
        gs.append({'name': 'interval-L5', 'fn': interval_group, 'args': {'L': 5}})
    for k in range(1, K + 1):
        gs.append({'name': 'range-%d' % k, 'fn': range_group, 'args': {'k': k}})
    gs.append({'name': 'constructor', 'fn': constructor_group, 'args': {'L': 1 if tier == 'quick' else 2}})
    gs.append(validation_group(('satisfies',), tier))
    gs.append(premise_group(tier))
    return gs


def judge_sat(case):
    names = rp.tok_names(case)
    prog = [rp.range_step('A', case['A'], names), rp.version_step('v', case['v'], names), {'id': 's', 'op': 'satisfies', 'r': 'A', 'v': 'v'}]
    if 'v2' in case:
        prog += [rp.version_step('v2', case['v2'], names), {'id': 's2', 'op': 'satisfies', 'r': 'A', 'v': 'v2'}]
    if 'A2' in case:
        prog += [rp.range_step('A2', case['A2'], names), {'id': 's3', 'op': 'satisfies', 'r': 'A2', 'v': 'v'}]

    def judge(native):
        ok, why = built(native, prog)
        if not ok:
            return 'unconstructible', why
        if 'panic' in str(native.get('s')):
            return 'confirmed', 'satisfies panicked: %s' % native['s']
        want = O.py_sat(O.raw_range(case['A'], names), O.raw_version(case['v'], names))
        txt = 'range=%s version=%s: satisfies=%s, expected %s' % (prog[0]['text'], rp.version_text(case['v'], names), native['s'], want)
        bad = native['s'] != want
        if 's2' in native:
            txt += ' | same version with build %s: %s' % (rp.version_text(case['v2'], names), native['s2'])
            bad = bad or native['s2'] != native['s']
        if 's3' in native:
            txt += ' | same range with other build metadata %s: %s' % (prog[-2]['text'], native['s3'])
            bad = bad or native['s3'] != native['s']
        return ('confirmed' if bad else 'mismatch'), txt
    return prog, judge


def interval_group(s, L):
    h = s.harness(L=L, cap_bs=2)
    bs, _ = h.boundset('A')
    v = h.version('v')
    f = h.fn('BoundSet', None, 'satisfies')
    n0 = len(h.eng.sink.panics)
    got = h.call(f, bs, v).t
    pan = [c for _, _, c in h.panics_since(n0)]
    dec = lambda m: {'A': [h.dec_bs(m, bs)], 'v': h.dec_version(m, v)}
    s.cover(h, 'prerelease admitted through the upper bound only', [got, h.is_pre(v), NOT(h.is_pre(h.pred_version(h.lower_pred(bs))))])
    s.cover(h, 'prerelease within the bounds but rejected by the gate', [NOT(got), h.is_pre(v), O.o_within(h, bs, v)])
    s.prove(h, 'satisfies(interval, v) == within bounds ∧ (v release ∨ a bound is a prerelease of v\'s tuple)', [], got == O.o_sat(h, bs, v), decode=dec, replay=judge_sat)
    s.prove(h, 'release versions are never affected by the gate', [NOT(h.is_pre(v))], got == O.o_within(h, bs, v), decode=dec, replay=judge_sat)
    s.unreachable(h, 'no panic (unreachable! arms) on constructor-valid intervals', [], pan, decode=dec, replay=judge_sat)


def same_but_build(x, y):
    out = [x.fs[i].t == y.fs[i].t for i in range(3)] + [x.fs[4].len == y.fs[4].len]
    for i in range(x.fs[4].ty.cap):
        p, q = x.fs[4].slots[i], y.fs[4].slots[i]
        out += [p.tag == q.tag, payload(p, 0)[0].t == payload(q, 0)[0].t, payload(p, 1)[0].t == payload(q, 1)[0].t]
    return out


def build_group(s, L):
    h = s.harness(L=L, cap_bs=2)
    f = h.fn('BoundSet', None, 'satisfies')
    bs, _ = h.boundset('A')
    bs2, _ = h.boundset('A2')
    v, v2 = h.version('v'), h.version('v2')
    hy = same_but_build(v, v2)
    for side in (h.lower_pred, h.upper_pred):
        p, q = side(bs), side(bs2)
        hy.append(p.tag == q.tag)
        hy += same_but_build(payload(p, 0)[0], payload(q, 0)[0])
    g1, g2, g3 = h.call(f, bs, v).t, h.call(f, bs, v2).t, h.call(f, bs2, v).t
    s.cover(h, 'different build metadata on both sides', hy + [v.fs[3].len != v2.fs[3].len])
    s.prove(h, 'build metadata on the version never changes satisfies', hy, g1 == g2,
            decode=lambda m: {'A': [h.dec_bs(m, bs)], 'v': h.dec_version(m, v), 'v2': h.dec_version(m, v2)}, replay=judge_sat)
    s.prove(h, 'build metadata on the bounds never changes satisfies', hy, g1 == g3,
            decode=lambda m: {'A': [h.dec_bs(m, bs)], 'A2': [h.dec_bs(m, bs2)], 'v': h.dec_version(m, v)}, replay=judge_sat)


def range_group(s, k):
    h = s.harness(L=1, cap_bs=max(k, 2), rank_bits=bits_for(2 * k + 1), hybrid=True)
    A, bss = h.range_('A', k, allow_any=True)
    v = h.version('v')
    n0 = len(h.eng.sink.panics)
    got = h.call(fnr(h, 'satisfies'), A, v).t
    got2 = h.call(h.fn('Version', None, 'satisfies'), v, A).t
    pan = [c for _, _, c in h.panics_since(n0)]
    dec = lambda m: {'A': h.dec_range(m, A), 'v': h.dec_version(m, v)}
    want = OR(*[h.sat_bs(b, v) for b in bss])
    s.cover(h, 'prerelease admitted by the last alternative only', [h.is_pre(v), h.sat_bs(bss[-1], v)] + [NOT(h.sat_bs(b, v)) for b in bss[:-1]])
    s.prove(h, 'Range::satisfies == some alternative whose bounds v meets passes the gate (%d alternatives)' % k, [], got == want, decode=dec, replay=judge_sat)
    s.prove(h, 'Version::satisfies(range) == Range::satisfies(version)', [], got == got2, decode=dec, replay=judge_sat)
    s.unreachable(h, 'no panic in Range::satisfies', [], pan, decode=dec, replay=judge_sat)
