"""Second tier of std models: combinators a small repair or refactor of the crate is likely to reach for
(tuple comparisons, Option / Result combinators, more Iterator consumers, Vec / slice helpers, integer helpers,
Ordering helpers, mem::{swap, replace, take}).  Same rules as stdmodels.py: transcriptions, no forking."""
import re
import z3
from .mir import split_top
from .types import TInt, TBool, TStruct, TEnum, TVec, TOpaque, TCell, UNIT, BOOL, ORDERING, INTS, STRTOK
from .values import (Sc, St, En, Vc, Opq, UNITV, bv, fresh, default, leaves, vmap, ite, mk_variant, is_variant, payload, simp)
from .engine import Ref, Clo, It, Unsupported, BoundExceeded, DIVERGE, AND, OR, NOT
from . import stdmodels as S
from .stdmodels import model, deref, is_ord, _sub_state, it_elems, vec_push, generic_cmp, generic_eq, generic_partial, elem_name


# ---------------------------------------------------------------------------------------------- tuples / Option in comparisons
_orig_eq, _orig_cmp, _orig_partial = S.generic_eq, S.generic_cmp, S.generic_partial


def _tuple_parts(ts):
    ts = ts.strip()
    if ts.startswith('(') and ts.endswith(')'):
        return split_top(ts[1:-1])
    return None


def generic_eq2(eng, ts, a, b, st, where):
    parts = _tuple_parts(ts)
    if parts is not None:
        # impl PartialEq for (A, B, ..): self.0 == other.0 && self.1 == other.1 && ..
        return AND(*[generic_eq2(eng, t, a.fs[i], b.fs[i], st, where) for i, t in enumerate(parts)])
    m = re.match(r'^\[(.+); (\d+)\]$', ts.strip(), re.S)
    if m:
        return AND(*[generic_eq2(eng, m.group(1), a.fs[i], b.fs[i], st, where) for i in range(int(m.group(2)))])
    m = re.match(r'^(?:std::option::)?Option<(.+)>$', ts.strip(), re.S)
    if m:
        inner = generic_eq2(eng, m.group(1), payload(a, 'Some')[0], payload(b, 'Some')[0], st, where)
        return z3.If(a.tag == b.tag, OR(a.tag == 0, inner), z3.BoolVal(False))
    return _orig_eq(eng, ts, a, b, st, where)


def generic_cmp2(eng, ts, a, b, st, where):
    parts = _tuple_parts(ts)
    if parts is not None:
        # impl Ord for (A, B, ..): lexicographic
        res = S.ord_const('Equal')
        for i in range(len(parts) - 1, -1, -1):
            c = generic_cmp2(eng, parts[i], a.fs[i], b.fs[i], st, where)
            res = ite(is_ord(c, 'Equal'), res, c)
        return res
    m = re.match(r'^(?:std::option::)?Option<(.+)>$', ts.strip(), re.S)
    if m:
        # derived Ord on Option: None < Some(_); Some by payload
        inner = generic_cmp2(eng, m.group(1), payload(a, 'Some')[0], payload(b, 'Some')[0], st, where)
        tags = eng.ordering(z3.ULT(a.tag, b.tag), a.tag == b.tag)
        return ite(AND(a.tag == 1, b.tag == 1), inner, tags)
    if ts.strip().split('::')[-1] == 'Ordering':
        da, db = z3.If(a.tag == 0, bv(0, 8), a.tag), z3.If(b.tag == 0, bv(0, 8), b.tag)
        return eng.ordering(z3.ULT(a.tag, b.tag), a.tag == b.tag)
    return _orig_cmp(eng, ts, a, b, st, where)


def generic_partial2(eng, ts, op, a, b, st, where):
    t = ts.strip()
    if _tuple_parts(t) is not None or re.match(r'^(?:std::option::)?Option<', t):
        c = generic_cmp2(eng, t, a, b, st, where)
        return {'lt': is_ord(c, 'Less'), 'le': NOT(is_ord(c, 'Greater')), 'gt': is_ord(c, 'Greater'), 'ge': NOT(is_ord(c, 'Less'))}[op]
    return _orig_partial(eng, ts, op, a, b, st, where)


S.generic_eq, S.generic_cmp, S.generic_partial = generic_eq2, generic_cmp2, generic_partial2
# the model functions in stdmodels resolve these names at call time through the module globals
for _n in ('generic_eq', 'generic_cmp', 'generic_partial'):
    S.__dict__[_n] = globals()[_n + '2']


@model('PartialEq on tuples / arrays', r'^<(\(.+\)|\[.+\]) as PartialEq(?:<.*>)?>::(eq|ne)$')
def m_tuple_eq(eng, m, args, dest_ts, st, where):
    r = generic_eq2(eng, m.group(1), deref(eng, st, args[0]), deref(eng, st, args[1]), st, where)
    return Sc(r if m.group(2) == 'eq' else NOT(r))


@model('Ord / PartialOrd on tuples and Option', r'^<(\(.+\)|(?:std::option::)?Option<.+>) as (Ord|PartialOrd(?:<.*>)?)>::(cmp|partial_cmp|lt|le|gt|ge)$')
def m_tuple_ord(eng, m, args, dest_ts, st, where):
    a, b = deref(eng, st, args[0]), deref(eng, st, args[1])
    op = m.group(3)
    if op == 'cmp':
        return generic_cmp2(eng, m.group(1), a, b, st, where)
    if op == 'partial_cmp':
        return mk_variant(eng.ty(dest_ts), 'Some', [generic_cmp2(eng, m.group(1), a, b, st, where)])
    return Sc(generic_partial2(eng, m.group(1), op, a, b, st, where))


@model('Ord::{max,min} methods', r'^<(.+) as Ord>::(max|min)$')
def m_ord_maxmin(eng, m, args, dest_ts, st, where):
    a, b = deref(eng, st, args[0]), deref(eng, st, args[1])
    lt_ba = S.generic_partial(eng, m.group(1), 'lt', b, a, st, where)      # if other < self { .. }
    return ite(lt_ba, a, b) if m.group(2) == 'max' else ite(lt_ba, b, a)


# ---------------------------------------------------------------------------------------------- Ordering helpers
@model('Ordering helpers', r'^(?:std::cmp::)?Ordering::(reverse|is_lt|is_le|is_gt|is_ge|is_eq|is_ne|then)$')
def m_ordering(eng, m, args, dest_ts, st, where):
    o = deref(eng, st, args[0])
    k = m.group(1)
    if k == 'reverse':
        return En(ORDERING, z3.If(o.tag == 0, bv(2, 8), z3.If(o.tag == 2, bv(0, 8), bv(1, 8))), [[], [], []])
    if k == 'then':
        return ite(o.tag == 1, deref(eng, st, args[1]), o)
    return Sc({'is_lt': o.tag == 0, 'is_le': o.tag != 2, 'is_gt': o.tag == 2, 'is_ge': o.tag != 0, 'is_eq': o.tag == 1, 'is_ne': o.tag != 1}[k])


@model('Ordering::then_with', r'^(?:std::cmp::)?Ordering::then_with::<.*>$')
def m_then_with(eng, m, args, dest_ts, st, where):
    o = deref(eng, st, args[0])
    st2 = _sub_state(st, AND(st.pc, o.tag == 1))
    return ite(o.tag == 1, eng.call_callable(args[1], [], st2, where), o)


# ---------------------------------------------------------------------------------------------- Option
@model('Option combinators (closures)', r'^Option::<(.+)>::(and_then|or_else|filter|unwrap_or_else|map_or|map_or_else|is_some_and|is_none_or|ok_or_else)(?:::<.*>)?$')
def m_option_clo(eng, m, args, dest_ts, st, where):
    o = deref(eng, st, args[0])
    k = m.group(2)
    some = is_variant(o, 'Some')
    x = payload(o, 'Some')[0]
    s_some, s_none = _sub_state(st, AND(st.pc, some)), _sub_state(st, AND(st.pc, NOT(some)))
    if k == 'and_then':
        r = eng.call_callable(args[1], [x], s_some, where)
        return ite(some, r, mk_variant(eng.ty(dest_ts), 'None'))
    if k == 'or_else':
        return ite(some, o, eng.call_callable(args[1], [], s_none, where))
    if k == 'filter':
        keep = eng.call_callable(args[1], [x], s_some, where).t
        return ite(AND(some, keep), o, mk_variant(eng.ty(dest_ts), 'None'))
    if k == 'unwrap_or_else':
        return ite(some, x, eng.call_callable(args[1], [], s_none, where))
    if k == 'map_or':
        return ite(some, eng.call_callable(args[2], [x], s_some, where), args[1])
    if k == 'map_or_else':
        return ite(some, eng.call_callable(args[2], [x], s_some, where), eng.call_callable(args[1], [], s_none, where))
    if k == 'is_some_and':
        return Sc(AND(some, eng.call_callable(args[1], [x], s_some, where).t))
    if k == 'is_none_or':
        return Sc(OR(NOT(some), eng.call_callable(args[1], [x], s_some, where).t))
    if k == 'ok_or_else':
        rt = eng.ty(dest_ts)
        return ite(some, mk_variant(rt, 'Ok', [x]), mk_variant(rt, 'Err', [eng.call_callable(args[1], [], s_none, where)]))
    raise Unsupported(k)


@model('Option combinators (values)', r'^Option::<(.+)>::(and|or|xor|ok_or|unwrap_or_default|as_ref|as_mut|as_deref|cloned|copied|zip|take|replace|insert|unwrap_unchecked|is_some|is_none)(?:::<.*>)?$')
def m_option_val(eng, m, args, dest_ts, st, where):
    k = m.group(2)
    if k in ('take', 'replace'):
        r = args[0]
        o = eng.read_ref(st, r)
        new = mk_variant(o.ty, 'None') if k == 'take' else mk_variant(o.ty, 'Some', [args[1]])
        eng.write_ref(st, r, lambda old: new)
        return o
    o = deref(eng, st, args[0])
    some = is_variant(o, 'Some')
    x = payload(o, 'Some')[0]
    if k in ('is_some', 'is_none'):
        return Sc(some if k == 'is_some' else NOT(some))
    if k in ('as_ref', 'as_mut', 'as_deref', 'cloned', 'copied'):
        return o
    if k == 'unwrap_unchecked':
        return x
    dt = eng.ty(dest_ts)
    if k == 'and':
        return ite(some, deref(eng, st, args[1]), mk_variant(dt, 'None'))
    if k == 'or':
        return ite(some, o, deref(eng, st, args[1]))
    if k == 'xor':
        b = deref(eng, st, args[1])
        bs = is_variant(b, 'Some')
        return ite(AND(some, NOT(bs)), o, ite(AND(NOT(some), bs), b, mk_variant(dt, 'None')))
    if k == 'ok_or':
        return ite(some, mk_variant(dt, 'Ok', [x]), mk_variant(dt, 'Err', [args[1]]))
    if k == 'unwrap_or_default':
        return ite(some, x, default(dt))
    if k == 'zip':
        b = deref(eng, st, args[1])
        both = AND(some, is_variant(b, 'Some'))
        tt = dt.variants[1][1][0]
        return ite(both, mk_variant(dt, 'Some', [St(tt, [x, payload(b, 'Some')[0]])]), mk_variant(dt, 'None'))
    raise Unsupported(k)


# ---------------------------------------------------------------------------------------------- Result
@model('Result combinators', r'^Result::<(.+)>::(map|and_then|ok|err|unwrap_or|unwrap_or_else|unwrap_or_default|is_ok|is_err|unwrap|expect|unwrap_err|or_else)(?:::<.*>)?$')
def m_result(eng, m, args, dest_ts, st, where):
    r = deref(eng, st, args[0])
    k = m.group(2)
    ok = is_variant(r, 'Ok')
    x, e = payload(r, 'Ok')[0], payload(r, 'Err')[0]
    s_ok, s_err = _sub_state(st, AND(st.pc, ok)), _sub_state(st, AND(st.pc, NOT(ok)))
    if k in ('is_ok', 'is_err'):
        return Sc(ok if k == 'is_ok' else NOT(ok))
    if k in ('unwrap', 'expect'):
        eng.panic('unwrap-err', where, AND(st.pc, NOT(ok)))
        return x
    if k == 'unwrap_err':
        eng.panic('unwrap-ok', where, AND(st.pc, ok))
        return e
    dt = eng.ty(dest_ts)
    if k == 'map':
        return ite(ok, mk_variant(dt, 'Ok', [eng.call_callable(args[1], [x], s_ok, where)]), mk_variant(dt, 'Err', [e]))
    if k == 'and_then':
        return ite(ok, eng.call_callable(args[1], [x], s_ok, where), mk_variant(dt, 'Err', [e]))
    if k == 'or_else':
        return ite(ok, mk_variant(dt, 'Ok', [x]), eng.call_callable(args[1], [e], s_err, where))
    if k == 'ok':
        return ite(ok, mk_variant(dt, 'Some', [x]), mk_variant(dt, 'None'))
    if k == 'err':
        return ite(ok, mk_variant(dt, 'None'), mk_variant(dt, 'Some', [e]))
    if k == 'unwrap_or':
        return ite(ok, x, args[1])
    if k == 'unwrap_or_else':
        return ite(ok, x, eng.call_callable(args[1], [e], s_err, where))
    if k == 'unwrap_or_default':
        return ite(ok, x, default(dt))
    raise Unsupported(k)


# ---------------------------------------------------------------------------------------------- Iterator consumers
def _iter_arg(eng, st, a):
    v = deref(eng, st, a)
    if isinstance(v, Vc):
        return It('src', v, bv(0, 64))
    if not isinstance(v, It):
        raise Unsupported('iterator argument %r' % (v,))
    return v


def _consume(eng, st, a):
    """after a consuming call through `&mut iter` the cursor is unknown to later code: poison it"""
    if isinstance(a, Ref):
        eng.write_ref(st, a, lambda old: None)


@model('Iterator::{any,all,position,find,find_map,count,last}', r'^<(.+) as Iterator>::(any|all|position|find|find_map|count|last)(?:::<.*>)?$')
def m_iter_search(eng, m, args, dest_ts, st, where):
    it = _iter_arg(eng, st, args[0])
    k = m.group(2)
    elems = it_elems(eng, it, st, where, st.pc)
    _consume(eng, st, args[0])
    if k == 'count':
        c = bv(0, 64)
        for g, x in elems:
            c = c + z3.If(g, bv(1, 64), bv(0, 64))
        return Sc(z3.simplify(c))
    dt = eng.ty(dest_ts)
    if k == 'last':
        res = mk_variant(dt, 'None')
        for g, x in elems:
            res = ite(g, mk_variant(dt, 'Some', [x]), res)
        return res
    found = z3.BoolVal(False)
    cnt = bv(0, 64)
    res = mk_variant(dt, 'None') if k in ('position', 'find', 'find_map') else None
    acc = z3.BoolVal(k == 'all')
    for g, x in elems:
        g = z3.simplify(g)
        if z3.is_false(g):
            continue
        st2 = _sub_state(st, AND(st.pc, g, NOT(found)))
        # find's predicate takes &Item, position/any/all take Item: the value model does not distinguish
        r = eng.call_callable(args[1], [x], st2, where)
        if k == 'find_map':
            hit = AND(g, NOT(found), is_variant(r, 'Some'))
            res = ite(hit, r, res)
            found = OR(found, hit)
            continue
        p = r.t
        hit = AND(g, NOT(found), p)
        if k == 'any':
            acc = OR(acc, AND(g, p))
        elif k == 'all':
            acc = AND(acc, z3.Implies(g, p))
        elif k == 'position':
            res = ite(hit, mk_variant(dt, 'Some', [Sc(cnt)]), res)
        elif k == 'find':
            res = ite(hit, mk_variant(dt, 'Some', [x]), res)
        found = OR(found, hit)
        cnt = z3.simplify(cnt + z3.If(g, bv(1, 64), bv(0, 64)))
    if k in ('any', 'all'):
        return Sc(acc)
    return res


@model('Iterator::reduce', r'^<(.+) as Iterator>::reduce::<.*>$')
def m_iter_reduce(eng, m, args, dest_ts, st, where):
    # core::iter::Iterator::reduce: `let first = self.next()?; Some(self.fold(first, f))`
    it = _iter_arg(eng, st, args[0])
    elems = it_elems(eng, it, st, where, st.pc)
    _consume(eng, st, args[0])
    dt = eng.ty(dest_ts)
    have = z3.BoolVal(False)
    acc = None
    for g, x in elems:
        g = z3.simplify(g)
        if z3.is_false(g):
            continue
        if acc is None:
            acc, have = x, g
            continue
        feas = z3.simplify(AND(g, have))
        new = acc
        if not z3.is_false(feas):
            st2 = _sub_state(st, AND(st.pc, feas))
            new = eng.call_callable(args[1], [acc, x], st2, where)
        acc = ite(AND(g, have), new, ite(g, x, acc))
        have = OR(have, g)
    if acc is None:
        return mk_variant(dt, 'None')
    return ite(have, mk_variant(dt, 'Some', [acc]), mk_variant(dt, 'None'))


@model('Iterator::{max_by,min_by,max_by_key,min_by_key}', r'^<(.+) as Iterator>::(max_by|min_by|max_by_key|min_by_key)::<(.*)>$')
def m_iter_by(eng, m, args, dest_ts, st, where):
    it = _iter_arg(eng, st, args[0])
    k = m.group(2)
    dt = eng.ty(dest_ts)
    have, acc, acck = z3.BoolVal(False), None, None
    key_ts = split_top(m.group(3))[0] if k.endswith('_key') else None
    for g, x in it_elems(eng, it, st, where, st.pc):
        g = z3.simplify(g)
        if z3.is_false(g):
            continue
        st2 = _sub_state(st, AND(st.pc, g))
        kx = eng.call_callable(args[1], [x], st2, where) if key_ts else None
        if acc is None:
            have, acc, acck = g, x, kx
            continue
        st3 = _sub_state(st, AND(st.pc, g, have))
        c = generic_cmp2(eng, key_ts, acck, kx, st3, where) if key_ts else eng.call_callable(args[1], [acc, x], st3, where)
        keep = is_ord(c, 'Greater') if k.startswith('max') else NOT(is_ord(c, 'Greater'))
        nxt = ite(keep, acc, x)
        acc = ite(g, ite(have, nxt, x), acc)
        if key_ts:
            acck = ite(g, ite(have, ite(keep, acck, kx), kx), acck)
        have = OR(have, g)
    if acc is None:
        return mk_variant(dt, 'None')
    return ite(have, mk_variant(dt, 'Some', [acc]), mk_variant(dt, 'None'))


@model('Iterator adaptors II', r'^<(.+) as Iterator>::(cloned|copied|by_ref|peekable|fuse)(?:::<.*>)?$')
def m_iter_identity2(eng, m, args, dest_ts, st, where):
    return args[0] if m.group(2) == 'by_ref' else _iter_arg(eng, st, args[0])


@model('Iterator::rev', r'^<(.+) as Iterator>::rev$')
def m_iter_rev(eng, m, args, dest_ts, st, where):
    it = _iter_arg(eng, st, args[0])
    if it.kind != 'src' or not z3.is_bv_value(z3.simplify(it.b)) or z3.simplify(it.b).as_long() != 0:
        raise Unsupported('rev() on a consumed or adapted iterator')
    v = it.a
    # reversed view: element i of the reversed sequence is v[len-1-i]
    slots = []
    for i in range(v.ty.cap):
        e = None
        for j in range(v.n):
            if v.slots[j] is None:
                continue
            e = v.slots[j] if e is None else ite(v.len == i + j + 1, v.slots[j], e)
        slots.append(e if i < v.n else None)
    return It('src', Vc(v.ty, v.len, slots, v.n), bv(0, 64))


@model('Iterator::extend / Vec::extend', r'^<Vec<(.+)> as Extend<.+>>::extend::<.*>$|^Vec::<(.+)>::(extend_from_slice|extend)(?:::<.*>)?$')
def m_extend(eng, m, args, dest_ts, st, where):
    r = args[0]
    v = eng.read_ref(st, r)
    src = deref(eng, st, args[1])
    it = src if isinstance(src, It) else It('src', src, bv(0, 64))
    for g, x in it_elems(eng, it, st, where, st.pc):
        g = z3.simplify(g)
        if z3.is_false(g):
            continue
        v = ite(g, vec_push(eng, v, x, AND(st.pc, g), where), v)
    eng.write_ref(st, r, lambda old: v)
    return UNITV


# ---------------------------------------------------------------------------------------------- Vec / slices
def _select(v, idx):
    r = None
    for i in range(v.n - 1, -1, -1):
        if v.slots[i] is None:
            continue
        r = v.slots[i] if r is None else ite(idx == i, v.slots[i], r)
    return r


@model('slice::{first,last,get}', r'^(?:core::slice::<impl \[.+\]>|Vec::<.+>)::(first|last|get)(?:::<.*>)?$')
def m_slice_get(eng, m, args, dest_ts, st, where):
    v = deref(eng, st, args[0])
    dt = eng.ty(dest_ts)
    k = m.group(1)
    idx = bv(0, 64) if k == 'first' else (v.len - 1 if k == 'last' else deref(eng, st, args[1]).t)
    e = _select(v, idx)
    if e is None:
        return mk_variant(dt, 'None')
    ok = z3.ULT(idx, v.len) if k != 'last' else v.len != 0
    return ite(ok, mk_variant(dt, 'Some', [e]), mk_variant(dt, 'None'))


@model('slice::{first_mut,last_mut,get_mut}', r'^(?:core::slice::<impl \[.+\]>|Vec::<.+>)::(first|last|get)_mut(?:::<.*>)?$')
def m_slice_get_mut(eng, m, args, dest_ts, st, where):
    r = args[0]
    if not isinstance(r, Ref):
        raise Unsupported('%s_mut on a non-reference' % m.group(1))
    v = eng.read_ref(st, r)
    dt = eng.ty(dest_ts)
    k = m.group(1)
    idx = bv(0, 64) if k == 'first' else (v.len - 1 if k == 'last' else deref(eng, st, args[1]).t)
    if v.n == 0 or all(x is None for x in v.slots[:v.n]):
        return mk_variant(dt, 'None')
    ok = z3.ULT(idx, v.len) if k != 'last' else v.len != 0
    return ite(ok, mk_variant(dt, 'Some', [Ref(r.root, r.path + (('si', idx),))]), mk_variant(dt, 'None'))


@model('u8 / char ASCII class tests', r'^core::num::<impl u8>::(is_ascii_digit|is_ascii_alphabetic|is_ascii_alphanumeric|is_ascii_lowercase|is_ascii_uppercase)$|^core::char::methods::<impl char>::(is_ascii_digit|is_ascii_alphabetic|is_ascii_alphanumeric|is_ascii_lowercase|is_ascii_uppercase)$')
def m_ascii_class(eng, m, args, dest_ts, st, where):
    b = deref(eng, st, args[0]).t
    w = b.size()
    rng = lambda lo, hi: AND(z3.UGE(b, bv(ord(lo), w)), z3.ULE(b, bv(ord(hi), w)))
    k = m.group(1) or m.group(2)
    dig, low, up = rng('0', '9'), rng('a', 'z'), rng('A', 'Z')
    return Sc({'is_ascii_digit': dig, 'is_ascii_lowercase': low, 'is_ascii_uppercase': up, 'is_ascii_alphabetic': OR(low, up),
               'is_ascii_alphanumeric': OR(dig, low, up)}[k])


@model('str::bytes / str::as_bytes over a bounded symbolic content', r'^core::str::<impl str>::(bytes|as_bytes)$')
def m_str_bytes(eng, m, args, dest_ts, st, where):
    content = getattr(eng, 'str_content', None)
    if content is None or not eng.tenv.string_as_slice:
        return NotImplemented
    v = content(deref(eng, st, args[0]))
    if v is None:
        raise Unsupported('bytes of a string whose content is not modelled')
    return It('src', v, bv(0, 64)) if m.group(1) == 'bytes' else v


@model('String::as_bytes / as_str on an ordered string token', r'^(?:String::as_bytes|String::as_str|core::str::<impl str>::as_bytes|<String as Deref>::deref|<String as AsRef<(?:str|\[u8\])>>::as_ref)$')
def m_token_bytes(eng, m, args, dest_ts, st, where):
    v = deref(eng, st, args[0])
    if not isinstance(v, Sc) or z3.is_bool(v.t):
        return NotImplemented
    return v            # the token stands for the content; only comparisons can observe it (generic_cmp / generic_eq on `[u8]`)


@model('integer to_string as a string token', r'^<(u8|u16|u32|u64|usize|i8|i16|i32|i64|isize) as ToString>::to_string$')
def m_int_to_string(eng, m, args, dest_ts, st, where):
    # the decimal text of an integer, as an ordered string token: its rank among other strings is left unconstrained (an over-approximation:
    # the only facts a caller can derive are those true of every string), so a property can fail here only with a model that the native replay then has to confirm
    if eng.tenv.string_as_slice:
        return NotImplemented
    return fresh(STRTOK, 'to_string')


@model('Vec::as_slice / as_mut_slice / Deref to a slice', r'^Vec::<.+>::(as_slice|as_mut_slice)$|^<Vec<.+> as (?:Deref|DerefMut|AsRef<\[.+\]>)>::(deref|deref_mut|as_ref)$')
def m_vec_as_slice(eng, m, args, dest_ts, st, where):
    return args[0]            # a slice of the whole vector is the same reference in this value model


@model('Index<usize> for Vec / slices', r'^<(?:Vec<.+>|\[.+\]) as Index(?:Mut)?<usize>>::index(?:_mut)?$')
def m_index(eng, m, args, dest_ts, st, where):
    v = deref(eng, st, args[0])
    idx = deref(eng, st, args[1]).t
    eng.panic('index-out-of-bounds', where, AND(st.pc, z3.UGE(idx, v.len)))
    e = _select(v, idx)
    if e is None:
        return DIVERGE
    return e


@model('slice::contains', r'^(?:core::slice::<impl \[(.+)\]>|Vec::<(.+)>)::contains$')
def m_contains(eng, m, args, dest_ts, st, where):
    v = deref(eng, st, args[0])
    x = deref(eng, st, args[1])
    ets = m.group(1) or m.group(2)
    out = []
    for i in range(v.n):
        if v.slots[i] is not None:
            out.append(AND(z3.UGT(v.len, i), generic_eq2(eng, ets, v.slots[i], x, st, where)))
    return Sc(OR(*out))


@model('Vec::{with_capacity,clear,truncate}', r'^Vec::<(.+)>::(with_capacity|clear|truncate)$')
def m_vec_misc(eng, m, args, dest_ts, st, where):
    k = m.group(2)
    if k == 'with_capacity':
        return default(eng.ty(dest_ts))
    r = args[0]
    v = eng.read_ref(st, r)
    if k == 'clear':
        eng.write_ref(st, r, lambda old: Vc(v.ty, bv(0, 64), [None] * v.ty.cap, 0))
    else:
        n = deref(eng, st, args[1]).t
        eng.write_ref(st, r, lambda old: Vc(v.ty, z3.simplify(z3.If(z3.ULT(n, v.len), n, v.len)), v.slots, v.n))
    return UNITV


@model('Vec::{remove,insert,swap_remove}', r'^Vec::<(.+)>::(remove|insert|swap_remove)$')
def m_vec_shift(eng, m, args, dest_ts, st, where):
    r = args[0]
    v = eng.read_ref(st, r)
    k = m.group(2)
    idx = deref(eng, st, args[1]).t
    cap = v.ty.cap
    if k == 'remove' or k == 'swap_remove':
        eng.panic('index-out-of-bounds', where, AND(st.pc, z3.UGE(idx, v.len)))
        out = _select(v, idx)
        if out is None:
            return DIVERGE
        slots = []
        for i in range(cap):
            if i >= v.n:
                slots.append(None)
            elif k == 'remove':
                nxt = v.slots[i + 1] if i + 1 < v.n else None
                slots.append(ite(z3.ULE(idx, i), nxt, v.slots[i]) if nxt is not None else v.slots[i])
            else:
                last = _select(v, v.len - 1)
                slots.append(ite(idx == i, last, v.slots[i]))
        eng.write_ref(st, r, lambda old: Vc(v.ty, z3.simplify(v.len - 1), slots, v.n))
        return out
    x = args[2]
    eng.panic('index-out-of-bounds', where, AND(st.pc, z3.UGT(idx, v.len)))
    if v.n >= cap:
        eng.bound_exceeded(where + ': Vec::insert beyond capacity %d' % cap, AND(st.pc, z3.UGE(v.len, cap)))
    n = min(cap, v.n + 1)
    slots = []
    for i in range(cap):
        if i >= n:
            slots.append(None)
            continue
        prev = v.slots[i - 1] if i >= 1 else None
        cur = v.slots[i] if i < v.n else None
        val = x
        if prev is not None:
            val = ite(z3.ULT(idx, i), prev, val)
        if cur is not None:
            val = ite(z3.UGT(idx, i), cur, val)
        slots.append(val)
    eng.write_ref(st, r, lambda old: Vc(v.ty, z3.simplify(v.len + 1), slots, n))
    return UNITV


@model('Vec::retain', r'^Vec::<(.+)>::retain::<.*>$')
def m_retain(eng, m, args, dest_ts, st, where):
    r = args[0]
    v = eng.read_ref(st, r)
    out = default(v.ty)
    for i in range(v.n):
        if v.slots[i] is None:
            continue
        g = z3.UGT(v.len, i)
        st2 = _sub_state(st, AND(st.pc, g))
        keep = eng.call_callable(args[1], [v.slots[i]], st2, where).t
        out = ite(AND(g, keep), vec_push(eng, out, v.slots[i], AND(st.pc, g, keep), where), out)
    eng.write_ref(st, r, lambda old: out)
    return UNITV


# ---------------------------------------------------------------------------------------------- integers, bool, mem
@model('integer helpers', r'^core::num::<impl (u8|u16|u32|u64|usize|i8|i16|i32|i64|isize)>::(saturating_add|checked_add|checked_sub|checked_mul|wrapping_add|wrapping_sub|wrapping_mul|abs_diff|min|max|pow|is_power_of_two)$')
def m_int_helpers(eng, m, args, dest_ts, st, where):
    t = INTS[m.group(1)]
    k = m.group(2)
    a = deref(eng, st, args[0]).t
    b = deref(eng, st, args[1]).t if len(args) > 1 else None
    sg = t.signed
    if k == 'wrapping_add':
        return Sc(a + b)
    if k == 'wrapping_sub':
        return Sc(a - b)
    if k == 'wrapping_mul':
        return Sc(a * b)
    if k in ('min', 'max'):
        lt = (b < a) if sg else z3.ULT(b, a)
        return Sc(z3.If(lt, b, a) if k == 'min' else z3.If(lt, a, b))
    if k == 'abs_diff' and not sg:
        return Sc(z3.If(z3.ULT(a, b), b - a, a - b))
    if k == 'saturating_add' and not sg:
        s = a + b
        return Sc(z3.If(z3.ULT(s, a), bv((1 << t.w) - 1, t.w), s))
    if k.startswith('checked_'):
        dt = eng.ty(dest_ts)
        if k == 'checked_add':
            r, ok = a + b, (z3.BVAddNoOverflow(a, b, sg) if not sg else AND(z3.BVAddNoOverflow(a, b, True), z3.BVAddNoUnderflow(a, b)))
        elif k == 'checked_sub':
            r, ok = a - b, (z3.BVSubNoUnderflow(a, b, sg) if not sg else AND(z3.BVSubNoOverflow(a, b), z3.BVSubNoUnderflow(a, b, True)))
        else:
            r, ok = a * b, (z3.BVMulNoOverflow(a, b, sg) if not sg else AND(z3.BVMulNoOverflow(a, b, True), z3.BVMulNoUnderflow(a, b)))
        return ite(ok, mk_variant(dt, 'Some', [Sc(r)]), mk_variant(dt, 'None'))
    raise Unsupported('integer helper ' + k)


@model('bool::then_some / then', r'^(?:core::bool::<impl bool>|bool)::(then_some|then)(?:::<.*>)?$')
def m_bool_then(eng, m, args, dest_ts, st, where):
    c = deref(eng, st, args[0]).t
    dt = eng.ty(dest_ts)
    if m.group(1) == 'then_some':
        return ite(c, mk_variant(dt, 'Some', [args[1]]), mk_variant(dt, 'None'))
    st2 = _sub_state(st, AND(st.pc, c))
    return ite(c, mk_variant(dt, 'Some', [eng.call_callable(args[1], [], st2, where)]), mk_variant(dt, 'None'))


@model('mem::{swap,replace,take}', r'^std::mem::(swap|replace|take)::<.*>$')
def m_mem(eng, m, args, dest_ts, st, where):
    k = m.group(1)
    a = args[0]
    if not isinstance(a, Ref):
        raise Unsupported('mem::%s on a non-reference' % k)
    va = eng.read_ref(st, a)
    if k == 'swap':
        b = args[1]
        vb = eng.read_ref(st, b)
        eng.write_ref(st, a, lambda old: vb)
        eng.write_ref(st, b, lambda old: va)
        return UNITV
    if k == 'replace':
        new = args[1]
        eng.write_ref(st, a, lambda old: new)
        return va
    eng.write_ref(st, a, lambda old: default(eng.ty(dest_ts)))
    return va


@model('From / Into identities and integer widening', r'^<(.+) as (?:From|Into)<(.+)>>::(from|into)$')
def m_from_identity(eng, m, args, dest_ts, st, where):
    a, b = m.group(1).strip(), m.group(2).strip()
    x = deref(eng, st, args[0])
    if a == b:
        return x
    if a in INTS and b in INTS and isinstance(x, Sc):
        src, dst = (INTS[b], INTS[a]) if m.group(3) == 'from' else (INTS[a], INTS[b])
        if dst.w >= src.w:
            return Sc(z3.SignExt(dst.w - src.w, x.t) if src.signed else z3.ZeroExt(dst.w - src.w, x.t)) if dst.w > src.w else x
    return NotImplemented


@model('Default::default (std types)', r'^<(Vec<.+>|Option<.+>|u8|u16|u32|u64|usize|bool|String) as Default>::default$')
def m_default2(eng, m, args, dest_ts, st, where):
    return default(eng.ty(dest_ts))


# ---------------------------------------------------------------------------------------------- integer ranges (`for i in a..b`, `a..=b`)
@model('RangeInclusive::new', r'^std::ops::RangeInclusive::<(\w+)>::new$')
def m_range_incl_new(eng, m, args, dest_ts, st, where):
    return St(eng.ty(dest_ts), [deref(eng, st, args[0]), deref(eng, st, args[1]), Sc(z3.BoolVal(False))])


@model('IntoIterator for integer ranges', r'^<std::ops::Range(?:Inclusive)?<\w+> as IntoIterator>::into_iter$')
def m_range_into_iter(eng, m, args, dest_ts, st, where):
    return deref(eng, st, args[0])


@model('Iterator::next for integer ranges', r'^<std::ops::(Range|RangeInclusive)<(\w+)> as Iterator>::next$')
def m_range_next(eng, m, args, dest_ts, st, where):
    r = args[0]
    v = eng.read_ref(st, r)
    t = INTS[m.group(2)]
    dt = eng.ty(dest_ts)
    s, e = v.fs[0].t, v.fs[1].t
    lt = (s < e) if t.signed else z3.ULT(s, e)
    if m.group(1) == 'Range':
        # impl Iterator for Range<A: Step>: if self.start < self.end { let n = self.start; self.start = n + 1; Some(n) } else { None }
        has = lt
        new = St(v.ty, [Sc(z3.simplify(z3.If(has, s + 1, s))), v.fs[1]])
    else:
        # RangeInclusive: if exhausted || start > end { None } else if start < end { n = start; start += 1; Some(n) } else { exhausted = true; Some(start) }
        ex = v.fs[2].t
        has = AND(NOT(ex), OR(lt, s == e))
        new = St(v.ty, [Sc(z3.simplify(z3.If(AND(has, lt), s + 1, s))), v.fs[1], Sc(z3.simplify(OR(ex, AND(has, s == e))))])
    eng.write_ref(st, r, lambda old: new)
    return simp(ite(has, mk_variant(dt, 'Some', [Sc(s)]), mk_variant(dt, 'None')))


@model('Vec::splice / drain over an index range', r'^Vec::<(.+)>::(splice|drain)::<std::ops::(Range|RangeInclusive)<usize>(?:, .*)?>$')
def m_splice(eng, m, args, dest_ts, st, where):
    # vec.splice(a..b, repl): the removed run is replaced when the returned Splice is dropped; the encoded callers drop it
    # at once, so the replacement is applied here.  drain(a..b) = splice(a..b, empty)
    r = args[0]
    v = eng.read_ref(st, r)
    rg = deref(eng, st, args[1])
    start = rg.fs[0].t
    end = rg.fs[1].t + 1 if m.group(3) == 'RangeInclusive' else rg.fs[1].t          # exclusive end
    eng.panic('slice-index', where, AND(st.pc, OR(z3.UGT(start, end), z3.UGT(end, v.len))))
    if m.group(2) == 'splice':
        rep = deref(eng, st, args[2])
        if isinstance(rep, It):
            raise Unsupported('splice with an iterator argument')
    else:
        rep = default(v.ty)
    removed = end - start
    cap = v.ty.cap
    n = min(cap, v.n + rep.n)
    newlen = z3.simplify(v.len - removed + rep.len)
    if v.n + rep.n > cap:
        eng.bound_exceeded(where + ': Vec::splice beyond capacity %d' % cap, AND(st.pc, z3.UGT(newlen, cap)))
    slots = []
    for k in range(cap):
        if k >= n:
            slots.append(None)
            continue
        val = None
        kk = bv(k, 64)
        for j in range(v.n):
            if v.slots[j] is None:
                continue
            c = OR(AND(z3.ULT(kk, start), j == k), AND(z3.UGE(kk, start + rep.len), kk - rep.len + removed == j))
            c = z3.simplify(c)
            if z3.is_false(c):
                continue
            val = v.slots[j] if val is None else ite(c, v.slots[j], val)
        for j in range(rep.n):
            if rep.slots[j] is None:
                continue
            c = z3.simplify(AND(z3.UGE(kk, start), kk - start == j, z3.UGT(rep.len, j)))
            if z3.is_false(c):
                continue
            val = rep.slots[j] if val is None else ite(c, rep.slots[j], val)
        slots.append(val)
    if not z3.is_bv_value(newlen):
        eng.fact(z3.ULE(newlen, n))
    eng.write_ref(st, r, lambda old: Vc(v.ty, newlen, slots, n))
    return Opq('Splice')


@model('Ord::clamp on integers', r'^<(u8|u16|u32|u64|usize|i8|i16|i32|i64|isize) as Ord>::clamp$')
def m_clamp(eng, m, args, dest_ts, st, where):
    # fn clamp(self, min, max): assert!(min <= max); if self < min { min } else if self > max { max } else { self }
    t = INTS[m.group(1)]
    x, lo, hi = [deref(eng, st, a).t for a in args[:3]]
    lt = (lambda a, b: a < b) if t.signed else z3.ULT
    eng.panic('assert', where + ': clamp requires min <= max', AND(st.pc, lt(hi, lo)))
    return Sc(z3.If(lt(x, lo), lo, z3.If(lt(hi, x), hi, x)))


@model('slice sort', r'^(?:std|core)::slice::<impl \[(.+)\]>::(sort|sort_unstable|sort_by|sort_unstable_by|sort_by_key|sort_unstable_by_key|sort_by_cached_key)(?:::<(.*)>)?$')
def m_sort(eng, m, args, dest_ts, st, where):
    """sorting as a fixed network of adjacent compare-and-swap steps (bubble sort, stable): the result is a sorted permutation of the
    first `len` slots, which is what every std sort guarantees; for the unstable variants one admissible order of ties is modelled"""
    r = args[0]
    if not isinstance(r, Ref):
        raise Unsupported('sort on a non-reference')
    v = eng.read_ref(st, r)
    k = m.group(2)
    ets = m.group(1)
    slots = list(v.slots)
    n = v.n
    key_ts = split_top(m.group(3))[0] if (m.group(3) and 'key' in k) else None
    keys = None
    if key_ts is not None:
        keys = [None] * n
        for i in range(n):
            if slots[i] is not None:
                keys[i] = eng.call_callable(args[1], [slots[i]], _sub_state(st, AND(st.pc, z3.UGT(v.len, i))), where)
    for p in range(n):
        for j in range(n - 1 - p):
            if slots[j] is None or slots[j + 1] is None:
                continue
            both = z3.UGT(v.len, j + 1)
            st2 = _sub_state(st, AND(st.pc, both))
            if k in ('sort', 'sort_unstable'):
                c = generic_cmp2(eng, ets, slots[j], slots[j + 1], st2, where)
            elif key_ts is not None:
                c = generic_cmp2(eng, key_ts, keys[j], keys[j + 1], st2, where)
            else:
                c = eng.call_callable(args[1], [slots[j], slots[j + 1]], st2, where)
            swap = AND(both, is_ord(c, 'Greater'))
            a, b = slots[j], slots[j + 1]
            slots[j], slots[j + 1] = ite(swap, b, a), ite(swap, a, b)
            if keys is not None:
                ka, kb = keys[j], keys[j + 1]
                keys[j], keys[j + 1] = ite(swap, kb, ka), ite(swap, ka, kb)
    eng.write_ref(st, r, lambda old: Vc(v.ty, v.len, slots, v.n))
    return UNITV


@model('slice::{to_vec,to_owned,into_vec}', r'^(?:core|std|alloc)::slice::<impl \[.+\]>::(to_vec|into_vec|to_owned)$|^<\[.+\] as ToOwned>::to_owned$')
def m_to_vec(eng, m, args, dest_ts, st, where):
    return deref(eng, st, args[0])


@model('Iterator::zip', r'^<(.+) as Iterator>::zip::<.*>$')
def m_zip(eng, m, args, dest_ts, st, where):
    a, b = _iter_arg(eng, st, args[0]), _iter_arg(eng, st, args[1])
    if a.kind != 'src' or b.kind != 'src':
        raise Unsupported('zip of adapted iterators')
    va, vb = a.a, b.a
    n = min(va.n, vb.n)
    tt = TStruct('tuple', [('0', None), ('1', None)])
    slots = []
    for i in range(max(va.ty.cap, 1)):
        if i < n and va.slots[i] is not None and vb.slots[i] is not None:
            slots.append(St(tt, [va.slots[i], vb.slots[i]]))
        else:
            slots.append(None)
    ln = z3.simplify(z3.If(z3.ULT(va.len, vb.len), va.len, vb.len))
    if not (z3.is_bv_value(z3.simplify(a.b)) and z3.simplify(a.b).as_long() == 0 and z3.is_bv_value(z3.simplify(b.b)) and z3.simplify(b.b).as_long() == 0):
        raise Unsupported('zip of partly consumed iterators')
    return It('src', Vc(TVec(None, max(va.ty.cap, 1)), ln, slots, n), bv(0, 64))


@model('Iterator::sum / product over integers', r'^<(.+) as Iterator>::(sum|product)::<(u8|u16|u32|u64|usize)>$')
def m_sum(eng, m, args, dest_ts, st, where):
    it = _iter_arg(eng, st, args[0])
    w = INTS[m.group(3)].w
    acc = bv(0 if m.group(2) == 'sum' else 1, w)
    for g, x in it_elems(eng, it, st, where, st.pc):
        nxt = acc + x.t if m.group(2) == 'sum' else acc * x.t
        if m.group(2) == 'sum':
            eng.panic('overflow', where + ': iterator sum', AND(st.pc, g, z3.Not(z3.BVAddNoOverflow(acc, x.t, False))))
        acc = z3.simplify(z3.If(g, nxt, acc))
    return Sc(acc)
