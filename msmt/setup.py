"""setup: warm the offline caches (dependencies of the MIR dump, replay binary)."""
import sys
from . import workspace, replay


def main():
    ws = workspace.prepare()
    b = replay.build()
    print('setup ok: MIR cache %s, replay binary %s' % (ws['hash'], b))


if __name__ == '__main__':
    try:
        main()
    except workspace.Inconclusive as e:
        print('setup failed: %s' % e)
        sys.exit(1)
