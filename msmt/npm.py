"""O-npm: node-semver 7.5.4 `classes/range.js` desugaring (replaceCarets / replaceTildes / replaceXRanges /
hyphenReplace) and `testSet`, transcribed as formulas over a structured comparator (operator, partial) and a version.

A partial is given as three components, each a number or X (x / X / * / missing), plus a prerelease list.
Every function returns a list of primitive comparators [(guard, op, Version value)] with op in
'>=', '>', '<', '<=', '=', 'ANY'; the null set `<0.0.0-0` is ('<', 0.0.0-0).  `admits` is testSet.
"""
import z3
from .engine import AND, OR, NOT
from .values import St, Sc, Vc, En, bv, mk_variant, ite
from . import oracles as O


class P:
    """structured partial: xM/xm/xp Bool (component is X), M/m/p BitVec64, pre: Vc of identifiers (may be empty)"""
    def __init__(self, xM, M, xm, m, xp, p, pre):
        self.xM, self.M, self.xm, self.m, self.xp, self.p, self.pre = xM, M, xm, m, xp, p, pre


class Ctx:
    def __init__(self, h):
        self.h = h
        self.V = h.V
        self.I = h.I
        self.vec_t = h.V.fields[4][1]

    def empty(self):
        return Vc(self.vec_t, bv(0, 64), [None] * self.vec_t.cap, 0)

    def zero_pre(self):
        e = mk_variant(self.I, 'Numeric', [Sc(bv(0, 64))])
        return Vc(self.vec_t, bv(1, 64), [e] + [None] * (self.vec_t.cap - 1), 1)

    def ver(self, M, m, p, pre=None):
        c = lambda x: x if not isinstance(x, int) else bv(x, 64)
        fs = [Sc(c(M)), Sc(c(m)), Sc(c(p)), self.empty(), pre if pre is not None else self.empty()]
        if len(self.V.fields) > 5:
            raise RuntimeError('O-npm builds versions: concrete mode only')
        return St(self.V, fs)


def test(op, c, v):
    lt, eq = O.o_lt_eq(v, c)            # v < c, v == c
    if op == '>=':
        # replaceGTE0: the comparator `>=0.0.0` is rewritten to `` (any version) before testing
        gte0 = AND(c.fs[0].t == 0, c.fs[1].t == 0, c.fs[2].t == 0, c.fs[4].len == 0)
        return OR(gte0, NOT(lt))
    if op == '>':
        return AND(NOT(lt), NOT(eq))
    if op == '<':
        return lt
    if op == '<=':
        return OR(lt, eq)
    if op == '=':
        return eq
    if op == 'ANY':
        return z3.BoolVal(True)
    raise ValueError(op)


def admits(h, comps, v):
    """Range.testSet: every comparator passes; a prerelease version additionally needs some comparator whose version is
    a prerelease of the same major.minor.patch (ANY comparators are skipped)"""
    allpass = AND(*[z3.Implies(g, test(op, c, v)) for g, op, c in comps])
    optin = OR(*[AND(g, h.is_pre(c), h.same_tuple(c, v)) for g, op, c in comps if op != 'ANY'])
    return AND(allpass, OR(NOT(h.is_pre(v)), optin))


def allpass(h, comps, v):
    return AND(*[z3.Implies(g, test(op, c, v)) for g, op, c in comps])


def optin(h, comps, v):
    return OR(*[AND(g, h.is_pre(c), h.same_tuple(c, v)) for g, op, c in comps if op != 'ANY'])


def nullset(cx):
    return ('<', cx.ver(0, 0, 0, cx.zero_pre()))


# ---------------------------------------------------------------- replaceXRange (primitives and bare partials)
def xrange(cx, gtlt, p):
    """gtlt in '', '=', '>', '>=', '<', '<='"""
    xM, xm, xp = p.xM, OR(p.xM, p.xm), OR(p.xM, p.xm, p.xp)
    anyx = xp
    out = []
    T = z3.BoolVal(True)
    if gtlt in ('>', '<'):
        out.append((xM,) + nullset(cx))
    else:
        out.append((xM, 'ANY', cx.ver(0, 0, 0)))
    rest = NOT(xM)
    if gtlt not in ('', '='):
        g = AND(rest, anyx)
        m0 = z3.If(xm, bv(0, 64), p.m)
        if gtlt == '>':
            # >1 => >=2.0.0 ; >1.2 => >=1.3.0
            out.append((AND(g, xm), '>=', cx.ver(p.M + 1, 0, 0)))
            out.append((AND(g, NOT(xm)), '>=', cx.ver(p.M, p.m + 1, 0)))
        elif gtlt == '<=':
            # <=0.7.x => <0.8.0-0 ; <=7.x => <8.0.0-0
            out.append((AND(g, xm), '<', cx.ver(p.M + 1, 0, 0, cx.zero_pre())))
            out.append((AND(g, NOT(xm)), '<', cx.ver(p.M, p.m + 1, 0, cx.zero_pre())))
        elif gtlt == '<':
            out.append((g, '<', cx.ver(p.M, m0, 0, cx.zero_pre())))
        else:   # >=
            out.append((g, '>=', cx.ver(p.M, m0, 0)))
        out.append((AND(rest, NOT(anyx)), gtlt, cx.ver(p.M, p.m, p.p, p.pre)))
    else:
        g = AND(rest, xm)
        out.append((g, '>=', cx.ver(p.M, 0, 0)))
        out.append((g, '<', cx.ver(p.M + 1, 0, 0, cx.zero_pre())))
        g = AND(rest, NOT(xm), xp)
        out.append((g, '>=', cx.ver(p.M, p.m, 0)))
        out.append((g, '<', cx.ver(p.M, p.m + 1, 0, cx.zero_pre())))
        out.append((AND(rest, NOT(anyx)), '=', cx.ver(p.M, p.m, p.p, p.pre)))
    return out


# ---------------------------------------------------------------- replaceTilde
def tilde(cx, p):
    out = [(p.xM, 'ANY', cx.ver(0, 0, 0))]
    g = AND(NOT(p.xM), p.xm)
    out += [(g, '>=', cx.ver(p.M, 0, 0)), (g, '<', cx.ver(p.M + 1, 0, 0, cx.zero_pre()))]
    g = AND(NOT(p.xM), NOT(p.xm), p.xp)
    out += [(g, '>=', cx.ver(p.M, p.m, 0)), (g, '<', cx.ver(p.M, p.m + 1, 0, cx.zero_pre()))]
    g = AND(NOT(p.xM), NOT(p.xm), NOT(p.xp))
    out += [(g, '>=', cx.ver(p.M, p.m, p.p, p.pre)), (g, '<', cx.ver(p.M, p.m + 1, 0, cx.zero_pre()))]
    return out


# ---------------------------------------------------------------- replaceCaret
def caret(cx, p):
    out = [(p.xM, 'ANY', cx.ver(0, 0, 0))]
    g = AND(NOT(p.xM), p.xm)
    out += [(g, '>=', cx.ver(p.M, 0, 0)), (g, '<', cx.ver(p.M + 1, 0, 0, cx.zero_pre()))]
    g = AND(NOT(p.xM), NOT(p.xm), p.xp)
    out.append((g, '>=', cx.ver(p.M, p.m, 0)))
    out.append((AND(g, p.M == 0), '<', cx.ver(p.M, p.m + 1, 0, cx.zero_pre())))
    out.append((AND(g, p.M != 0), '<', cx.ver(p.M + 1, 0, 0, cx.zero_pre())))
    g = AND(NOT(p.xM), NOT(p.xm), NOT(p.xp))
    out.append((g, '>=', cx.ver(p.M, p.m, p.p, p.pre)))
    out.append((AND(g, p.M == 0, p.m == 0), '<', cx.ver(p.M, p.m, p.p + 1, cx.zero_pre())))
    out.append((AND(g, p.M == 0, p.m != 0), '<', cx.ver(p.M, p.m + 1, 0, cx.zero_pre())))
    out.append((AND(g, p.M != 0), '<', cx.ver(p.M + 1, 0, 0, cx.zero_pre())))
    return out


# ---------------------------------------------------------------- hyphenReplace
def hyphen(cx, f, t):
    out = []
    g = AND(NOT(f.xM), f.xm)
    out.append((g, '>=', cx.ver(f.M, 0, 0)))
    g = AND(NOT(f.xM), NOT(f.xm), f.xp)
    out.append((g, '>=', cx.ver(f.M, f.m, 0)))
    g = AND(NOT(f.xM), NOT(f.xm), NOT(f.xp))
    out.append((g, '>=', cx.ver(f.M, f.m, f.p, f.pre)))
    g = AND(NOT(t.xM), t.xm)
    out.append((g, '<', cx.ver(t.M + 1, 0, 0, cx.zero_pre())))
    g = AND(NOT(t.xM), NOT(t.xm), t.xp)
    out.append((g, '<', cx.ver(t.M, t.m + 1, 0, cx.zero_pre())))
    g = AND(NOT(t.xM), NOT(t.xm), NOT(t.xp))
    out.append((g, '<=', cx.ver(t.M, t.m, t.p, t.pre)))
    out.append((AND(f.xM, t.xM), 'ANY', cx.ver(0, 0, 0)))
    return out


# ---------------------------------------------------------------- Python twin for judging native replays
def py_comps(form, op, parts):
    """parts: list of dicts {'M','m','p': int or None (X), 'pre': [raw idents]} (two for hyphen) -> [(op, raw version)]"""
    def ver(M, m, p, pre=None):
        return {'major': M, 'minor': m, 'patch': p, 'pre': pre or [], 'build': []}
    Z = [{'n': 0}]
    p = parts[0]
    xM = p['M'] is None
    xm = xM or p['m'] is None
    xp = xm or p['p'] is None
    if form in ('primitive', 'partial'):
        gtlt = op if form == 'primitive' else ''
        if xM:
            return [('<', ver(0, 0, 0, Z))] if gtlt in ('>', '<') else [('ANY', None)]
        if gtlt not in ('', '=') and xp:
            M, m = p['M'], (0 if xm else p['m'])
            if gtlt == '>':
                return [('>=', ver(M + 1, 0, 0) if xm else ver(M, m + 1, 0))]
            if gtlt == '<=':
                return [('<', ver(M + 1, 0, 0, Z) if xm else ver(M, m + 1, 0, Z))]
            if gtlt == '<':
                return [('<', ver(M, m, 0, Z))]
            return [('>=', ver(M, m, 0))]
        if xm:
            return [('>=', ver(p['M'], 0, 0)), ('<', ver(p['M'] + 1, 0, 0, Z))]
        if xp:
            return [('>=', ver(p['M'], p['m'], 0)), ('<', ver(p['M'], p['m'] + 1, 0, Z))]
        return [(gtlt if gtlt not in ('',) else '=', ver(p['M'], p['m'], p['p'], p['pre']))]
    if form == 'tilde':
        if p['M'] is None:
            return [('ANY', None)]
        if p['m'] is None:
            return [('>=', ver(p['M'], 0, 0)), ('<', ver(p['M'] + 1, 0, 0, Z))]
        if p['p'] is None:
            return [('>=', ver(p['M'], p['m'], 0)), ('<', ver(p['M'], p['m'] + 1, 0, Z))]
        return [('>=', ver(p['M'], p['m'], p['p'], p['pre'])), ('<', ver(p['M'], p['m'] + 1, 0, Z))]
    if form == 'caret':
        M, m, q = p['M'], p['m'], p['p']
        if M is None:
            return [('ANY', None)]
        if m is None:
            return [('>=', ver(M, 0, 0)), ('<', ver(M + 1, 0, 0, Z))]
        if q is None:
            return [('>=', ver(M, m, 0)), ('<', ver(M, m + 1, 0, Z) if M == 0 else ver(M + 1, 0, 0, Z))]
        up = ver(M + 1, 0, 0, Z) if M != 0 else (ver(0, m + 1, 0, Z) if m != 0 else ver(0, 0, q + 1, Z))
        return [('>=', ver(M, m, q, p['pre'])), ('<', up)]
    if form == 'hyphen':
        f, t = parts
        out = []
        if f['M'] is not None:
            if f['m'] is None:
                out.append(('>=', ver(f['M'], 0, 0)))
            elif f['p'] is None:
                out.append(('>=', ver(f['M'], f['m'], 0)))
            else:
                out.append(('>=', ver(f['M'], f['m'], f['p'], f['pre'])))
        if t['M'] is not None:
            if t['m'] is None:
                out.append(('<', ver(t['M'] + 1, 0, 0, Z)))
            elif t['p'] is None:
                out.append(('<', ver(t['M'], t['m'] + 1, 0, Z)))
            else:
                out.append(('<=', ver(t['M'], t['m'], t['p'], t['pre'])))
        return out or [('ANY', None)]
    raise ValueError(form)


def py_admits(comps, v):
    for op, c in comps:
        if op == 'ANY':
            continue
        if op == '>=' and (c['major'], c['minor'], c['patch']) == (0, 0, 0) and not c['pre']:
            continue                     # replaceGTE0
        k = O.py_cmp(v, c)
        ok = {'>=': k >= 0, '>': k > 0, '<': k < 0, '<=': k <= 0, '=': k == 0}[op]
        if not ok:
            return False
    if v['pre']:
        return any(op != 'ANY' and c['pre'] and (c['major'], c['minor'], c['patch']) == (v['major'], v['minor'], v['patch']) for op, c in comps)
    return True
