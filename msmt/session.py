"""One worker's obligations: discharge, native confirmation of counterexamples, vacuity witnesses, statistics."""
import time
import z3

from . import replay as rp
from .harness import H
from .engine import AND, OR, NOT


class Session:
    def __init__(self, name, tier, seed, ws, binary, timeout_s=None):
        self.name, self.tier, self.seed, self.ws, self.binary = name, tier, seed, ws, binary
        self.timeout_s = timeout_s or (300 if tier == 'quick' else 1800)
        self.results = []
        self.hs = []
        self.validated = 0
        self.known = set()
        self.only_unreachable = False      # C06 reuses other properties' groups but keeps only the panic / bound obligations

    def harness(self, **kw):
        kw.setdefault('timeout_s', self.timeout_s)
        h = H(ws=self.ws, **kw)
        self.hs.append(h)
        return h

    def add(self, **r):
        self.results.append(r)
        return r

    # ------------------------------------------------------------------
    def prove(self, h, name, hyps, goal, decode=None, replay=None, uf=False, cls=None, note=None):
        """H => G for all values within the bounds, or a natively confirmed counterexample"""
        if self.only_unreachable and not getattr(self, '_in_unreachable', False):
            return None
        mode = 'rank' if h.rank else 'concrete'
        extra = []
        r = None
        for attempt in range(4):
            status, model, dt = h.check(list(h.wf) + list(hyps) + extra, goal, uf=uf)
            if r is not None and status != 'sat':
                break                       # no further counterexample shape: keep the verdict of the last replayed one
            r = self._judge(h, name, mode, status, model, dt, decode, replay, cls, note)
            if r['verdict'] != 'inconclusive' or status != 'sat' or replay is None:
                break
            # the model did not reproduce natively (unconstructible text or an artefact of the abstraction): ask for a different one
            b = h.blocking_clause(model)
            if b is None:
                break
            extra.append(b)
            r['note'] = (r.get('note') or '') + ' [%d counterexample model(s) did not replay; asked for another]' % (attempt + 1)
        self.results.append(r)
        return r

    def _judge(self, h, name, mode, status, model, dt, decode, replay, cls, note):
        r = {'ob': name, 'mode': mode, 'solver_s': round(dt, 3), 'kind': 'prove'}
        if note:
            r['note'] = note
        if status == 'unsat':
            r['verdict'] = 'holds'
        elif status == 'unknown':
            r['verdict'] = 'inconclusive'
            r['detail'] = 'solver timeout after %.0fs' % dt
        else:
            r['verdict'] = 'inconclusive'
            r['detail'] = 'counterexample found but no decoder/replay registered'
            if decode is not None:
                case = decode(model)
                r['case'] = case
                if cls is not None:
                    r['class'] = cls(case)
                if replay is not None:
                    try:
                        prog, judge = replay(case)
                        native = rp.run(self.binary, [prog])[0]
                        verdict, detail = judge(native)
                    except Exception as e:
                        verdict, detail, prog, native = 'mismatch', 'replay failed: %s' % e, None, None
                    r['program'], r['native'] = prog, native
                    if verdict == 'confirmed':
                        r['verdict'] = 'violated'
                        r['detail'] = detail
                    elif verdict == 'unconstructible':
                        r['verdict'] = 'inconclusive'
                        r['detail'] = 'counterexample state could not be rebuilt through Range::parse: ' + detail
                    else:
                        r['verdict'] = 'inconclusive'
                        r['detail'] = 'encoder-mismatch: solver model not reproduced natively: ' + detail
        return r

    def cover(self, h, name, hyps):
        """vacuity witness: the hypotheses (and the reached situation) are satisfiable"""
        if self.only_unreachable:
            return None
        status, model, dt = h.check(list(h.wf) + list(hyps), None)
        r = {'ob': name, 'mode': 'rank' if h.rank else 'concrete', 'solver_s': round(dt, 3), 'kind': 'cover'}
        if status == 'sat':
            r['verdict'] = 'holds'
        elif status == 'unsat':
            r['verdict'] = 'inconclusive'
            r['detail'] = 'vacuity witness failed: hypotheses unsatisfiable'
        else:
            r['verdict'] = 'inconclusive'
            r['detail'] = 'vacuity witness: solver timeout'
        self.results.append(r)
        return r

    def unreachable(self, h, name, hyps, conds, decode=None, replay=None, cls=None):
        """none of the recorded conditions (panics / bound overruns) is satisfiable under the hypotheses"""
        conds = [c for c in conds if not z3.is_false(c)]
        if not conds:
            self.results.append({'ob': name, 'mode': 'rank' if h.rank else 'concrete', 'solver_s': 0.0, 'kind': 'prove', 'verdict': 'holds', 'note': 'no such path in the encoding'})
            return
        self._in_unreachable = True
        try:
            return self.prove(h, name, hyps, NOT(OR(*conds)), decode=decode, replay=replay, cls=cls)
        finally:
            self._in_unreachable = False

    def ri_sites(self, h):
        """the representation invariant quantifies over 'whatever BoundSet::new accepts': sound only while every BoundSet is built there"""
        sites = h.boundset_construction_sites()
        extra = [x for x in sites if not (x.endswith('::new') or x.endswith('::clone'))]
        self.results.append({'ob': 'every BoundSet { .. } aggregate in the MIR is built inside BoundSet::new (or the derived clone)', 'mode': 'syntactic', 'solver_s': 0.0, 'kind': 'prove',
                             'verdict': 'inconclusive' if extra else 'holds', 'detail': ('other construction sites: ' + ', '.join(extra)) if extra else '', 'note': 'sites: ' + ', '.join(s.split('>::')[-1] for s in sites)})

    def bounds_ok(self, h, name, hyps):
        """unwinding assertion: no capacity / loop bound of the encoding is exceeded under the hypotheses"""
        conds = [c for _, c in h.eng.sink.bexc]
        if not conds:
            return
        status, model, dt = h.check(list(h.wf) + list(hyps), NOT(OR(*conds)))
        r = {'ob': name + ' [unwinding]', 'mode': 'rank' if h.rank else 'concrete', 'solver_s': round(dt, 3), 'kind': 'prove'}
        if status == 'unsat':
            r['verdict'] = 'holds'
        else:
            r['verdict'] = 'inconclusive'
            r['detail'] = 'a capacity bound of the encoding can be exceeded (%s): %s' % (status, '; '.join(w for w, _ in h.eng.sink.bexc[:3]))
        self.results.append(r)
        return r

    # ------------------------------------------------------------------
    def report(self):
        stats = {'solver_s': 0.0, 'encoded': [], 'models': [], 'stubs': [], 'validated': self.validated, 'tree': self.ws['hash']}
        for h in self.hs:
            for k, v in h.eng.stats.items():
                stats[k] = stats.get(k, 0) + v
            stats['solver_s'] += h.solver_s
            for n in sorted(h.eng.encoded):
                if n not in stats['encoded']:
                    stats['encoded'].append(n)
            for n in sorted(h.eng.used_models):
                if n not in stats['models']:
                    stats['models'].append(n)
            for n in sorted(h.eng.used_stubs):
                if n not in stats['stubs']:
                    stats['stubs'].append(n)
        return {'group': self.name, 'results': self.results, 'stats': stats}
