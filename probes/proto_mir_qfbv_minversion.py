#!/usr/bin/env python3
"""Throw-away prototype #2: MIR -> flattened scalar trees (pure QF_BV), function summaries.
Only to measure feasibility for DESIGN.md."""
import re, sys, time, os
import z3
sys.argv = sys.argv[:1]
exec(open(os.path.join(os.path.dirname(os.path.abspath(__file__)), 'mirparse_probe.py')).read())

L_IDENT = int(os.environ.get('L_IDENT', '2'))
# ---------------------------------------------------------------- types
class T: pass
class TInt(T):
    def __init__(s, w, signed=False): s.w, s.signed = w, signed
class TBool(T): pass
class TStruct(T):
    def __init__(s, name, fields): s.name, s.fields = name, fields      # [(fname, T)]
class TEnum(T):
    def __init__(s, name, variants, discr=None): s.name, s.variants, s.discr = name, variants, discr or list(range(len(variants)))  # [(vname, [T])]
U64, I8, ISZ, BOOL = TInt(64), TInt(8, True), TInt(64, True), TBool()
INTS = {'u8': TInt(8), 'u16': TInt(16), 'u32': TInt(32), 'i16': TInt(16, True), 'i32': TInt(32, True), 'i64': TInt(64, True)}
STR = TInt(16)                      # abstract ordered token for String contents
Ordering_T = TEnum('Ordering', [('Less', []), ('Equal', []), ('Greater', [])], [-1, 0, 1])
Identifier_T = TEnum('Identifier', [('Numeric', [U64]), ('AlphaNumeric', [STR])])
def TVec(elem, cap, name): return TStruct(name, [('len', U64)] + [('e%d' % i, elem) for i in range(cap)])
CAPI = L_IDENT + 1
VecI_T = TVec(Identifier_T, CAPI, 'VecI')
Version_T = TStruct('Version', [('major', U64), ('minor', U64), ('patch', U64), ('build', VecI_T), ('pre_release', VecI_T)])
Predicate_T = TEnum('Predicate', [('Excluding', [Version_T]), ('Including', [Version_T]), ('Unbounded', [])])
Bound_T = TEnum('Bound', [('Lower', [Predicate_T]), ('Upper', [Predicate_T])])
BoundSet_T = TStruct('BoundSet', [('upper', Bound_T), ('lower', Bound_T)])
def TOption(t): return TEnum('Option', [('None', []), ('Some', [t])])
OptBoundSet_T, OptOrdering_T = TOption(BoundSet_T), TOption(Ordering_T)
OptU64_T = TOption(U64)
Partial_T = TStruct('Partial', [('major', OptU64_T), ('minor', OptU64_T), ('patch', OptU64_T), ('pre_release', VecI_T), ('build', VecI_T)])
Operation_T = TEnum('Operation', [('Exact', []), ('GreaterThan', []), ('GreaterThanEquals', []), ('LessThan', []), ('LessThanEquals', [])])
CAP_BS = int(os.environ.get('CAP_BS', '8'))
VecBS_T = TVec(BoundSet_T, CAP_BS, 'VecBS')
Range_T = TStruct('Range', [('0', VecBS_T)])
ARRS = {}
def TArr(elem, n):
    if (id(elem), n) not in ARRS: ARRS[(id(elem), n)] = TStruct('arr%d' % n, [('a%d' % i, elem) for i in range(n)])
    return ARRS[(id(elem), n)]


OPTS = {}
UNIT_T = TStruct('unit', [])
def type_of(t):
    if not OPTS: OPTS[id(BoundSet_T)] = OptBoundSet_T; OPTS[id(Ordering_T)] = OptOrdering_T; OPTS[id(U64)] = OptU64_T
    t = t.strip()
    while True:
        t2 = re.sub(r"^&(?:'\w+ )?(?:mut )?", '', t)
        m = re.match(r'^(?:std::boxed::)?Box<(.+)>$', t2) or re.match(r'^\*(?:const|mut) (.+)$', t2)
        if m: t2 = m.group(1)
        if t2 == t: break
        t = t2
    base = {'u64': U64, 'usize': U64, 'isize': ISZ, 'i8': I8, 'bool': BOOL, 'std::cmp::Ordering': Ordering_T, 'Identifier': Identifier_T,
            'Version': Version_T, 'std::vec::Vec<range::BoundSet>': VecBS_T, 'Vec<BoundSet>': VecBS_T, 'range::Range': Range_T, '()': TStruct('unit', []), 'range::Predicate': Predicate_T, 'Predicate': Predicate_T, 'range::Bound': Bound_T, 'range::BoundSet': BoundSet_T,
            'BoundSet': BoundSet_T, 'std::vec::Vec<Identifier>': VecI_T, 'Vec<Identifier>': VecI_T, 'std::string::String': STR,
            
            }
    if t in base: return base[t]
    if t in INTS: return INTS[t]
    if t in ('range::Partial', 'Partial'): return Partial_T
    if t in ('range::Operation', 'Operation'): return Operation_T
    if t.startswith('{closure@'): return UNIT_T
    m = re.match(r'^\[(.+); (\d+)\]$', t)
    if m: return TArr(type_of(m.group(1)), int(m.group(2)))
    m = re.match(r'^std::mem::(?:MaybeUninit|ManuallyDrop|MaybeDangling)<(.+)>$', t)
    if m: return type_of(m.group(1))
    m = re.match(r'^(?:std::option::)?Option<(.+)>$', t)
    if m:
        inner = type_of(m.group(1))
        if id(inner) not in OPTS: OPTS[id(inner)] = TOption(inner)
        return OPTS[id(inner)]
    if t.startswith('(') and t.endswith(')'):
        return TStruct('tuple', [('f%d' % i, type_of(x)) for i, x in enumerate(split_top(t[1:-1]))])
    raise KeyError('no type for ' + t)

# ---------------------------------------------------------------- values: trees with scalar z3 leaves
class Sc:
    def __init__(s, t): s.t = t
class St:
    def __init__(s, ty, fs): s.ty, s.fs = ty, fs
class En:
    def __init__(s, ty, tag, vs): s.ty, s.tag, s.vs = ty, tag, vs     # tag: BV8 index, vs: list of payload lists
CNT = [0]
def fresh(ty, name):
    CNT[0] += 1
    if isinstance(ty, TInt): return Sc(z3.BitVec('%s!%d' % (name, CNT[0]), ty.w))
    if isinstance(ty, TBool): return Sc(z3.Bool('%s!%d' % (name, CNT[0])))
    if isinstance(ty, TStruct): return St(ty, [fresh(t, name + '.' + f) for f, t in ty.fields])
    if isinstance(ty, TEnum): return En(ty, z3.BitVec('%s.tag!%d' % (name, CNT[0]), 8), [[fresh(t, '%s.%s%d' % (name, vn, i)) for i, t in enumerate(ts)] for vn, ts in ty.variants])
def default(ty):
    if isinstance(ty, TInt): return Sc(z3.BitVecVal(0, ty.w))
    if isinstance(ty, TBool): return Sc(z3.BoolVal(False))
    if isinstance(ty, TStruct): return St(ty, [default(t) for f, t in ty.fields])
    if isinstance(ty, TEnum): return En(ty, z3.BitVecVal(0, 8), [[default(t) for t in ts] for vn, ts in ty.variants])
def leaves(v):
    if isinstance(v, Sc): yield v.t
    elif isinstance(v, St):
        for f in v.fs: yield from leaves(f)
    else:
        yield v.tag
        for p in v.vs:
            for f in p: yield from leaves(f)
def vmap(f, *vs):
    v = vs[0]
    if isinstance(v, Sc): return Sc(f(*[x.t for x in vs]))
    if isinstance(v, St): return St(v.ty, [vmap(f, *[x.fs[i] for x in vs]) for i in range(len(v.fs))])
    return En(v.ty, f(*[x.tag for x in vs]), [[vmap(f, *[x.vs[j][i] for x in vs]) for i in range(len(v.vs[j]))] for j in range(len(v.vs))])
def ite(c, a, b):
    if z3.is_true(c): return a
    if z3.is_false(c): return b
    return vmap(lambda x, y: x if x.eq(y) else z3.If(c, x, y), a, b)
def wf_tag(v):
    """constraints: enum tags in range (for fresh symbolic inputs)"""
    out = []
    if isinstance(v, St):
        for f in v.fs: out += wf_tag(f)
    elif isinstance(v, En):
        out.append(z3.ULT(v.tag, len(v.vs)))
        for p in v.vs:
            for f in p: out += wf_tag(f)
    return out
def is_variant(e, name):
    i = [vn for vn, _ in e.ty.variants].index(name)
    return e.tag == i
def mk_variant(ty, name, args):
    i = [vn for vn, _ in ty.variants].index(name)
    return En(ty, z3.BitVecVal(i, 8), [list(args) if j == i else [default(t) for t in ts] for j, (vn, ts) in enumerate(ty.variants)])
def discr(e, w):
    r = z3.BitVecVal(e.ty.discr[-1] % (1 << w), w)
    for i in range(len(e.ty.variants) - 2, -1, -1):
        r = z3.If(e.tag == i, z3.BitVecVal(e.ty.discr[i] % (1 << w), w), r)
    return z3.simplify(r)
def ord_of(lt, eq): return En(Ordering_T, z3.If(lt, z3.BitVecVal(0, 8), z3.If(eq, z3.BitVecVal(1, 8), z3.BitVecVal(2, 8))), [[], [], []])
def is_ord(o, name): return o.tag == ['Less', 'Equal', 'Greater'].index(name)

# ---------------------------------------------------------------- executor
class Unsupported(Exception): pass
class Ref:
    def __init__(s, local, path=()): s.local, s.path = local, tuple(path)
def ref_get(env, r):
    v = env[r.local]
    for k in r.path: v = v.fs[k]
    return v
def upd(v, path, new):
    if not path: return new
    fs = list(v.fs); fs[path[0]] = upd(fs[path[0]], path[1:], new); return St(v.ty, fs)
def ref_set(env, r, new): env[r.local] = upd(env[r.local], r.path, new)
class MapIter:
    def __init__(s, inner, fn, cenv): s.inner, s.fn, s.cenv = inner, fn, cenv
class FlatIter:
    def __init__(s, inner): s.inner = inner
class FilterIter:
    def __init__(s, inner, fn, cenv): s.inner, s.fn, s.cenv = inner, fn, cenv
class IterObj:
    def __init__(s, vec, idx=0): s.vec, s.idx = vec, idx

def matching(s, i):
    d = 0
    for j in range(i, len(s)):
        if s[j] == '(': d += 1
        elif s[j] == ')':
            d -= 1
            if d == 0: return j
    return -1
def balanced(s):
    d = 0
    for c in s:
        if c == '(': d += 1
        elif c == ')':
            d -= 1
            if d < 0: return False
    return d == 0
SOLVER = z3.SolverFor('QF_BV'); STATS = {'feas': 0, 'runs': 0}
def feasible(pc):
    STATS['feas'] += 1
    SOLVER.push(); SOLVER.add(pc); r = SOLVER.check(); SOLVER.pop()
    return r != z3.unsat

def strip_parens(p):
    p = p.strip()
    while p.startswith('(') and matching(p, 0) == len(p) - 1: p = p[1:-1].strip()
    return p
def eval_place(env, p):
    p = strip_parens(p)
    if re.match(r'^_\d+$', p): return env[p]
    if p.startswith('*'):
        r = eval_place(env, p[1:])
        return ref_get(env, r) if isinstance(r, Ref) else r
    m = re.match(r'^(.*)\.(\d+): (.+)$', p)
    if m and balanced(m.group(1)):
        base, k = strip_parens(m.group(1)), int(m.group(2))
        mm = re.match(r'^(.*) as (\w+)$', base)
        if mm and balanced(mm.group(1)):
            bv = eval_place(env, mm.group(1))
            i = [vn for vn, _ in bv.ty.variants].index(mm.group(2))
            return bv.vs[i][k]
        bv = eval_place(env, base)
        if re.match(r'^i(8|16|32|64|size)$', m.group(3)) and isinstance(bv, St):
            r = Sc(bv.fs[k].t); r.signed = True; return r
        if re.search(r'std::ptr::(Unique|NonNull)<', m.group(3)) or re.match(r'^std::mem::(ManuallyDrop|MaybeDangling)<', m.group(3)) or (isinstance(bv, St) and bv.ty.name.startswith('arr') and re.match(r'^\[', m.group(3))): return bv
        return bv.fs[k]
    raise Unsupported('place ' + p)
def eval_operand(env, o):
    o = o.strip()
    for pre in ('no_retag copy ', 'no_retag move ', 'copy ', 'move '):
        if o.startswith(pre): return eval_place(env, o[len(pre):])
    m = re.match(r'^const (-?\d+)_(\w+)$', o)
    if m:
        w = {'u64': 64, 'usize': 64, 'isize': 64, 'i8': 8, 'u8': 8, 'i64': 64, 'i32': 32, 'u32': 32, 'i16': 16, 'u16': 16}[m.group(2)]
        r = Sc(z3.BitVecVal(int(m.group(1)) % (1 << w), w)); r.signed = m.group(2).startswith('i'); return r
    if o == 'const true': return Sc(z3.BoolVal(True))
    if o == 'const false': return Sc(z3.BoolVal(False))
    if o.startswith('const ZeroSized'): return St(UNIT_T, [])
    if o.startswith('const '): return Sc(z3.BoolVal(False))
    raise Unsupported('operand ' + o)
LAST_ALIAS = [None]
def eval_rvalue(env, rv, lty):
    rv = rv.strip()
    m = re.match(r'^&mut (_\d+)$', rv)
    if m: return Ref(m.group(1))
    m = re.match(r'^&mut \((_\d+)\.(\d+): [^()]*\)$', rv)
    if m: return Ref(m.group(1), (int(m.group(2)),))
    if rv.startswith('&'): return eval_place(env, re.sub(r'^&(raw const |raw mut |mut )?', '', rv))
    m = re.match(r'^discriminant\((.*)\)$', rv)
    if m: return Sc(discr(eval_place(env, m.group(1)), type_of(lty).w))
    m = re.match(r'^(Eq|Ne|Lt|Le|Gt|Ge)\((.*)\)$', rv)
    if m:
        ops = [eval_operand(env, x) for x in split_top(m.group(2))]
        a, b = ops[0].t, ops[1].t; sg = any(getattr(o, 'signed', False) for o in ops)
        if sg: return Sc({'Eq': lambda: a == b, 'Ne': lambda: a != b, 'Lt': lambda: a < b, 'Le': lambda: a <= b, 'Gt': lambda: a > b, 'Ge': lambda: a >= b}[m.group(1)]())
        return Sc({'Eq': lambda: a == b, 'Ne': lambda: a != b, 'Lt': lambda: z3.ULT(a, b), 'Le': lambda: z3.ULE(a, b), 'Gt': lambda: z3.UGT(a, b), 'Ge': lambda: z3.UGE(a, b)}[m.group(1)]())
    m = re.match(r'^(Add|Sub)WithOverflow\((.*)\)$', rv)
    if m:
        a, b = [eval_operand(env, x).t for x in split_top(m.group(2))]
        w = a.size()
        if m.group(1) == 'Add':
            r = a + b; ov = z3.ULT(r, a)
        else:
            r = a - b; ov = z3.ULT(a, b)
        return St(TStruct('tuple', [('f0', TInt(w)), ('f1', BOOL)]), [Sc(r), Sc(ov)])
    m = re.match(r'^(.*) as (\w+) \(IntToInt\)$', rv)
    if m:
        o = eval_operand(env, m.group(1)); tw = type_of(m.group(2)).w; sw = o.t.size()
        mm = re.search(r': (\w+)\)$', m.group(1).strip()); src_signed = bool(mm and mm.group(1).startswith('i')) or getattr(o, 'signed', False)
        if tw == sw: return Sc(o.t)
        if tw < sw: return Sc(z3.Extract(tw - 1, 0, o.t))
        return Sc(z3.SignExt(tw - sw, o.t) if src_signed else z3.ZeroExt(tw - sw, o.t))
    m = re.match(r'^Not\((.*)\)$', rv)
    if m:
        a = eval_operand(env, m.group(1)).t
        return Sc(z3.Not(a) if z3.is_bool(a) else ~a)
    m = re.match(r'^(.*) as (.+) \((Transmute|PtrToPtr)\)$', rv)
    if m:
        mm = re.match(r'^copy \(\((_\d+)\.0: std::ptr::Unique<', m.group(1))
        if mm: LAST_ALIAS[0] = mm.group(1)
        return eval_operand(env, m.group(1))
    if rv.startswith('['):
        try:
            ty = type_of(lty) if lty else None
            vals = [eval_operand(env, x) for x in split_top(rv[1:-1])]
            if ty is None: ty = TArr(vals[0].ty, len(vals))
            return St(ty, vals)
        except (Unsupported, KeyError, AttributeError): return Sc(z3.BoolVal(False))
    if rv.startswith('('):
        return St(type_of(lty), [eval_operand(env, x) for x in split_top(rv[1:-1])])
    if re.match(r'^(copy|move|const|no_retag) ', rv): return eval_operand(env, rv)
    m = re.match(r"^([\w:<>, &']+?)::(\w+)(?:\((.*)\))?$", rv)
    if m:
        ty = type_of(lty); args = [eval_operand(env, x) for x in split_top(m.group(3))] if m.group(3) else []
        if isinstance(ty, TStruct): return St(ty, args)
        return mk_variant(ty, m.group(2), args)
    if re.match(r'^\w+$', rv): return mk_variant(type_of(lty), rv, [])
    m = re.match(r'^([\w:]+) \{ (.*) \}$', rv)
    if m:
        ty = type_of(lty); vals = dict((fa.split(': ', 1)[0], eval_operand(env, fa.split(': ', 1)[1])) for fa in split_top(m.group(2)))
        return St(ty, [vals[f] for f, _ in ty.fields])
    raise Unsupported('rvalue ' + rv)

def merge(results):
    v = results[-1][1]
    for pc, val in reversed(results[:-1]): v = ite(pc, val, v)
    return vmap(lambda x: z3.simplify(x), v)

SUMMARY = {}
PANICS = []
ALIAS = {}
def call_fn(fn, args):
    key = id(fn)
    if key not in SUMMARY:
        formals = [fresh(type_of(fn.locals[a]), 'arg') for a in fn.args]
        t = time.time(); f0 = STATS['feas']
        body = run_fn_raw(fn, formals)
        SUMMARY[key] = (formals, body)
        print('    summary %-52s %.2fs  leaves=%d feas=%d' % (fn.name[-52:], time.time() - t, len(list(leaves(body))), STATS['feas'] - f0))
    formals, body = SUMMARY[key]
    sub = []
    for f, a in zip(formals, args): sub += list(zip(leaves(f), leaves(a)))
    return vmap(lambda x: z3.substitute(x, *sub), body)

BOUND_EXCEEDED = []
def vec_slots(v): return v.fs[1:]
def mk_vec(ty, ln, slots): return St(ty, [Sc(ln)] + list(slots))
def closure_fn(span):
    for name, fl in FNS.items():
        for f in fl:
            if f.args and span in f.locals[f.args[0]] and '{closure#' in name and name.count('{closure#') == 1 + span_depth(span, name): return f
    for name, fl in FNS.items():
        for f in fl:
            if f.args and span in f.locals[f.args[0]]: return f
    return None
def span_depth(span, name): return 0
def type_name_of_elem(lty):
    m = re.search(r'Option<&(?:std::boxed::)?(?:Box<)?(?:range::)?(\w+)', lty)
    return m.group(1)
def iter_elems(it, env):
    if isinstance(it, IterObj):
        v = it.vec; ln = v.fs[0].t
        return [(z3.UGT(ln, i), s_) for i, s_ in enumerate(vec_slots(v)) if i >= it.idx]
    if isinstance(it, MapIter):
        return [(c, call_fn(it.fn, [it.cenv if isinstance(it.cenv, (St, En, Sc)) else St(UNIT_T, []), x])) for c, x in iter_elems(it.inner, env)]
    raise Unsupported('iter_elems ' + str(type(it)))
def call_std(callee, args, lty=None, env=None, pc=None):
    r = call_std2(callee, args, lty, env, pc)
    return r
def call_std2(callee, args, lty, env, pc):
    if callee in ('Vec::<BoundSet>::new', 'Vec::<Identifier>::new'):
        return default(type_of(lty))
    m = re.match(r'^Vec::<(\w+)>::(push|pop|append|is_empty|len)$', callee)
    if m:
        op = m.group(2)
        if op in ('is_empty', 'len'):
            v = args[0]; return Sc(v.fs[0].t == 0) if op == 'is_empty' else v.fs[0]
        ref = args[0]; v = ref_get(env, ref); ln = v.fs[0].t; slots = vec_slots(v); cap = len(slots)
        if op == 'push':
            x = args[1]
            BOUND_EXCEEDED.append(z3.And(pc, ln == cap))
            ref_set(env, ref, mk_vec(v.ty, ln + 1, [ite(ln == i, x, slots[i]) for i in range(cap)]))
            return St(TStruct('unit', []), [])
        if op == 'pop':
            oty = type_of(lty)
            val = default(oty.variants[1][1][0]) if False else slots[0]
            for i in range(1, cap): val = ite(ln == i + 1, slots[i], val)
            res = ite(ln == 0, mk_variant(oty, 'None', []), mk_variant(oty, 'Some', [val]))
            ref_set(env, ref, mk_vec(v.ty, z3.If(ln == 0, ln, ln - 1), slots))
            return res
        if op == 'append':
            rb = args[1]; b = env[rb.local]; lb = b.fs[0].t; bs = vec_slots(b)
            BOUND_EXCEEDED.append(z3.And(pc, z3.UGT(ln + lb, cap)))
            new = []
            for i in range(cap):
                val = slots[i]
                for j in range(min(i + 1, len(bs))):
                    val = ite(z3.And(ln == i - j, z3.UGT(lb, j)), bs[j], val)
                new.append(val)
            env[ref.local] = mk_vec(v.ty, ln + lb, new)
            env[rb.local] = mk_vec(b.ty, z3.BitVecVal(0, 64), bs)
            return St(TStruct('unit', []), [])
    if re.match(r'^<&Vec<\w+> as IntoIterator>::into_iter$', callee) or re.match(r'^core::slice::<impl \[\w+\]>::iter$', callee): return IterObj(args[0])
    if re.match(r'^<Vec<\w+> as Deref>::deref$', callee): return args[0]
    m = re.match(r'^<.+ as Iterator>::map::<.+, \{closure@(src/\w+\.rs:\d+:\d+: \d+:\d+)\}>$', callee)
    if m: return MapIter(args[0], closure_fn(m.group(1)), args[1])
    m = re.match(r'^<.+ as Iterator>::(min|max)$', callee)
    if m:
        elems = iter_elems(args[0], env)     # list of (present_cond, value)
        oty = type_of(lty)
        ety = type_name_of_elem(lty)
        acc, have = None, z3.BoolVal(False)
        for cond, val in elems:
            if acc is None: acc, have = val, cond; continue
            c = call_fn(find_fn(ety, 'Ord', 'cmp'), [acc, val])
            if m.group(1) == 'min': pick_new = is_ord(c, 'Greater')            # min_by: Greater => y, _ => x
            else: pick_new = z3.Not(is_ord(c, 'Greater'))                      # max_by: Greater => x, _ => y
            acc = ite(z3.And(cond, z3.Or(z3.Not(have), pick_new)), val, acc); have = z3.Or(have, cond)
        if acc is None: return mk_variant(oty, 'None', [])
        return ite(have, mk_variant(oty, 'Some', [acc]), mk_variant(oty, 'None', []))
    if re.match(r'^<std::slice::Iter<.*> as Iterator>::next$', callee):
        ref = args[0]; it = env[ref.local]; oty = type_of(lty)
        v = it.vec; ln = v.fs[0].t; slots = vec_slots(v)
        if it.idx >= len(slots): return mk_variant(oty, 'None', [])
        res = ite(z3.UGT(ln, it.idx), mk_variant(oty, 'Some', [slots[it.idx]]), mk_variant(oty, 'None', []))
        env[ref.local] = IterObj(v, it.idx + 1)
        return res
    m = re.match(r'^<(.+) as Into<Version>>::into$', callee) or re.match(r'^<Version as From<(.+)>>::from$', callee)
    if m:
        argty = m.group(1).replace('range::', '')
        for name, fl in FNS.items():
            for f in fl:
                if name.endswith('::from') and len(f.args) == 1 and f.locals[f.args[0]].replace('range::', '') == argty and f.ret == 'Version': return call_fn(f, args)
        raise Unsupported('no From impl for ' + argty)
    m = re.match(r'^Option::<.+?>::unwrap_or$', callee)
    if m: return ite(is_variant(args[0], 'Some'), args[0].vs[1][0], args[1])
    m = re.match(r'^Option::<.+?>::unwrap$', callee)
    if m:
        o = args[0]; PANICS.append(('unwrap', z3.And(pc, is_variant(o, 'None')))); return o.vs[1][0]
    m = re.match(r'^Option::<.+?>::map::<.+, \{closure@(src/\w+\.rs:\d+:\d+: \d+:\d+)\}>$', callee)
    if m:
        o = args[0]; oty = type_of(lty); f = closure_fn(m.group(1))
        r = call_fn(f, [St(TStruct('unit', []), []), o.vs[1][0]])
        return ite(is_variant(o, 'Some'), mk_variant(oty, 'Some', [r]), mk_variant(oty, 'None', []))
    m = re.match(r'^Box::<.+>::new_uninit$', callee)
    if m: return default(type_of(lty))
    m = re.match(r'^std::boxed::box_assume_init_into_vec_unsafe::<(\w+), (\d+)>$', callee)
    if m:
        arr = args[0]; vty = type_of(lty); n = int(m.group(2)); cap = len(vty.fields) - 1
        return mk_vec(vty, z3.BitVecVal(n, 64), [arr.fs[i] if i < n else default(vty.fields[1][1]) for i in range(cap)])
    if re.match(r'^<Box<.+> as Drop>::drop$', callee): return St(TStruct('unit', []), [])
    return call_std1(callee, args)
def call_std1(callee, args):
    if callee in ('<u64 as Ord>::cmp',): return ord_of(z3.ULT(args[0].t, args[1].t), args[0].t == args[1].t)
    if callee == '<isize as Ord>::cmp': return ord_of(args[0].t < args[1].t, args[0].t == args[1].t)
    if callee == '<String as Ord>::cmp': return ord_of(z3.ULT(args[0].t, args[1].t), args[0].t == args[1].t)
    if callee == 'Vec::<Identifier>::len': return args[0].fs[0]
    if callee == 'Vec::<Identifier>::is_empty': return Sc(args[0].fs[0].t == 0)
    if callee == '<Vec<Identifier> as Ord>::cmp':
        a, b = args; la, lb = a.fs[0].t, b.fs[0].t
        res = ord_of(z3.ULT(la, lb), la == lb)
        for i in range(CAPI - 1, -1, -1):
            ec = call_fn(find_fn('Identifier', 'Ord', 'cmp'), [a.fs[1 + i], b.fs[1 + i]])
            both = z3.And(z3.UGT(la, i), z3.UGT(lb, i))
            res = ite(both, ite(is_ord(ec, 'Equal'), res, ec), res)
        return res
    if callee == '<Vec<Identifier> as PartialEq>::eq':
        a, b = args; la, lb = a.fs[0].t, b.fs[0].t
        res = la == lb
        for i in range(CAPI):
            ee = call_fn(find_fn('Identifier', 'PartialEq', 'eq'), [a.fs[1 + i], b.fs[1 + i]])
            res = z3.And(res, z3.Or(z3.ULE(la, i), ee.t))
        return Sc(res)
    m = re.match(r'^<&+(\w+) as (PartialOrd|PartialEq)>::(lt|le|gt|ge|eq|ne)$', callee) or re.match(r'^<Box<(?:range::)?(\w+)> as (PartialOrd|PartialEq)>::(lt|le|gt|ge|eq|ne)$', callee) or re.match(r'^<(?:range::)?(\w+) as (PartialOrd|PartialEq)>::(lt|le|gt|ge|eq|ne)$', callee)
    if m and m.group(1) in ('u64', 'usize', 'String', 'isize'):
        a, b = args[0].t, args[1].t; op = m.group(3)
        lt = (a < b) if m.group(1) == 'isize' else z3.ULT(a, b)
        return Sc({'lt': lt, 'le': z3.Or(lt, a == b), 'gt': z3.Not(z3.Or(lt, a == b)), 'ge': z3.Not(lt), 'eq': a == b, 'ne': a != b}[op])
    if m:
        ty, tr, op = m.groups()
        if tr == 'PartialEq':
            f = find_fn(ty, 'PartialEq', op)
            if f: return call_fn(f, args)
            r = call_fn(find_fn(ty, 'PartialEq', 'eq'), args); return Sc(z3.Not(r.t))
        f = find_fn(ty, 'PartialOrd', op)
        if f: return call_fn(f, args)
        pc_ = call_fn(find_fn(ty, 'PartialOrd', 'partial_cmp'), args)     # default methods of PartialOrd, defined via partial_cmp
        c = pc_.vs[1][0]; some = is_variant(pc_, 'Some')
        return Sc({'lt': z3.And(some, is_ord(c, 'Less')), 'le': z3.And(some, z3.Not(is_ord(c, 'Greater'))), 'gt': z3.And(some, is_ord(c, 'Greater')), 'ge': z3.And(some, z3.Not(is_ord(c, 'Less')))}[op])
    m = re.match(r'^std::cmp::(max|min)::<&(?:range::)?(\w+)>$', callee)
    if m:
        a, b = args   # core::cmp::Ord::{max,min} as in rust-src: `if other < self {..}`; `<` on &T forwards to T's lt = partial_cmp == Some(Less)
        pcm = call_fn(find_fn(m.group(2), 'PartialOrd', 'partial_cmp'), [b, a])
        lt_ba = z3.And(is_variant(pcm, 'Some'), is_ord(pcm.vs[1][0], 'Less'))
        return ite(lt_ba, a, b) if m.group(1) == 'max' else ite(lt_ba, b, a)
    if re.match(r'^<(?:Box<)?(?:range::)?(\w+)>? as Clone>::clone$', callee): return args[0]
    if re.match(r'^Box::<(.+)>::new$', callee): return args[0]
    if re.match(r'^<Box<.+> as AsRef<.+>>::as_ref$', callee): return args[0]
    if callee == 'Version::is_prerelease': return None
    return None

def split_call(st):
    mm = re.match(r'^(_\d+|\(.*?\)) = (.*) -> (?:\[return: (bb\d+).*\]|(bb\d+));$', st)
    if not mm or not mm.group(2).endswith(')'): return None
    body = mm.group(2); d = 0
    for j in range(len(body) - 1, -1, -1):
        if body[j] == ')': d += 1
        elif body[j] == '(':
            d -= 1
            if d == 0: return (mm.group(1), body[:j], body[j + 1:-1], mm.group(3), mm.group(4))
    return None
def fork_env(env):
    return dict((k, IterObj(v.vec, v.idx) if isinstance(v, IterObj) else v) for k, v in env.items())
def run_fn_raw(fn, args):
    STATS['runs'] += 1
    env0 = dict(zip(fn.args, args))
    results = []
    work = [('bb0', env0, z3.BoolVal(True))]
    while work:
        bb, env, pc = work.pop()
        while bb is not None:
            nxt = None
            for st in fn.blocks[bb]['stmts']:
                if re.match(r'^(StorageLive|StorageDead|nop;|FakeRead|PlaceMention|Retag|AscribeUserType|Coverage|//)', st): continue
                if st == 'return;': results.append((pc, env['_0'])); break
                if st == 'unreachable;': break
                m = re.match(r'^goto -> (bb\d+);$', st)
                if m: nxt = m.group(1); break
                m = re.match(r'^switchInt\((.*)\) -> \[(.*)\];$', st)
                if m:
                    v = eval_operand(env, m.group(1)).t
                    targets, others = [], []
                    for t in split_top(m.group(2)):
                        k, b = t.split(': ')
                        if k == 'otherwise': targets.append((z3.And(*[z3.Not(c) for c in others]) if others else z3.BoolVal(True), b))
                        else:
                            c = (v if int(k) != 0 else z3.Not(v)) if z3.is_bool(v) else v == z3.BitVecVal(int(k) % (1 << v.size()), v.size())
                            others.append(c); targets.append((c, b))
                    live = []
                    for c, b in targets:
                        c = z3.simplify(c)
                        if z3.is_false(c): continue
                        if z3.is_true(c): live = [(c, b)]; break
                        if feasible(z3.And(pc, c)): live.append((c, b))
                    for c, b in live[1:]: work.append((b, fork_env(env), z3.And(pc, c)))
                    if live:
                        pc = pc if z3.is_true(live[0][0]) else z3.And(pc, live[0][0]); nxt = live[0][1]
                    break
                if re.match(r'^(\S.*?) = (.+?)\((.*)\) -> unwind (continue|terminate.*);$', st):
                    PANICS.append((fn.name, pc)); nxt = None; break
                m = re.match(r'^assert\((!?)(.*?), ".*\) -> \[success: (bb\d+).*\];$', st)
                if m:
                    c = eval_operand(env, m.group(2)).t
                    okc = z3.Not(c) if m.group(1) else c
                    PANICS.append(('assert', z3.And(pc, z3.Not(okc)))); pc = z3.And(pc, okc); nxt = m.group(3); break
                m = re.match(r'^drop\((.*)\) -> \[return: (bb\d+).*\];$', st)
                if m: nxt = m.group(2); break
                m = split_call(st)
                if m:
                    lhs, callee, argstr, r1, r2 = m
                    try: argv = [eval_operand(env, a) for a in split_top(argstr)]
                    except Unsupported: argv = None
                    if re.match(r'^(core::panicking::|std::rt::panic|core::panicking|panic_fmt|unreachable_display)', callee) or 'panic' in callee.split('::<')[0]:
                        PANICS.append((fn.name, pc)); nxt = None; break
                    if re.match(r'^(core::fmt::|Arguments::|std::fmt::)', callee):
                        env[lhs] = Sc(z3.BoolVal(False)); nxt = r1 or r2; break
                    val = call_std(callee, argv, fn.locals.get(lhs), env, pc)
                    if val is None:
                        mm = re.match(r'^<(?:range::)?(\w+) as (\w+)>::(\w+)$', callee)
                        target = find_fn(mm.group(1), mm.group(2), mm.group(3)) if mm else None
                        if not mm:
                            mm = re.match(r'^(?:range::)?(\w+)::(\w+)$', callee)
                            target = find_fn(mm.group(1), None, mm.group(2)) if mm else None
                        if target is None: raise Unsupported('call ' + callee)
                        val = call_fn(target, argv)
                    env[lhs] = val; nxt = r1 or r2; break
                m = re.match(r'^(_\d+) = (.*);$', st)
                if m:
                    LAST_ALIAS[0] = None
                    env[m.group(1)] = eval_rvalue(env, m.group(2), fn.locals[m.group(1)])
                    if LAST_ALIAS[0]: ALIAS[(id(fn), m.group(1))] = LAST_ALIAS[0]
                    continue
                m = re.match(r'^\((_\d+)\.(\d+): ([^()]*)\) = (.*);$', st)
                if m:
                    val = eval_rvalue(env, m.group(4), m.group(3)); env[m.group(1)] = upd(env[m.group(1)], (int(m.group(2)),), val); continue
                m = re.match(r'^\(+\*(_\d+)\)\.1: std::mem::ManuallyDrop<.*\) = (\[.*\]);$', st)
                if m:
                    src = ALIAS[(id(fn), m.group(1))]
                    env[src] = eval_rvalue(env, m.group(2), None); continue
                raise Unsupported('stmt ' + st)
            bb = nxt
    return merge(results)

# ---------------------------------------------------------------- harness
MAXS = 900719925474099
def wf_version(v): return [z3.ULE(v.fs[i].t, MAXS + 1) for i in range(3)] + ([] if os.environ.get('RANK') else [z3.ULE(v.fs[3].fs[0].t, L_IDENT)]) + [z3.ULE(v.fs[4].fs[0].t, L_IDENT)]
def wf(v, ty=None):
    out = wf_tag(v)
    def walk(x):
        if isinstance(x, St):
            if x.ty is Version_T: out.extend(wf_version(x))
            for f in x.fs: walk(f)
        elif isinstance(x, En):
            for p in x.vs:
                for f in p: walk(f)
    walk(v); return out
QN = [0]
def check(name, hyps, goal):
    s = z3.SolverFor('QF_BV'); s.add(*hyps); s.add(z3.Not(goal))
    QN[0] += 1
    t = time.time(); r = s.check(); dt = time.time() - t
    print('%-44s %s  (%.2fs)' % (name, 'HOLDS(unsat)' if r == z3.unsat else str(r).upper(), dt))
    return s.model() if r == z3.sat else None
def show_version(m, v):
    g = lambda e: m.eval(e, model_completion=True)
    s = '%s.%s.%s' % tuple(g(v.fs[i].t) for i in range(3))
    pre = v.fs[4]; n = g(pre.fs[0].t).as_long(); ids = []
    for i in range(min(n, L_IDENT)):
        e = pre.fs[1 + i]
        ids.append(str(g(e.vs[0][0].t)) if g(e.tag).as_long() == 0 else 's%s' % g(e.vs[1][0].t))
    return s + ('-' + '.'.join(ids) if ids else '')
def show_bound(m, b):
    g = lambda e: m.eval(e, model_completion=True)
    side = g(b.tag).as_long(); p = b.vs[side][0]; k = g(p.tag).as_long()
    return '%s(%s)' % (['Lower', 'Upper'][side], 'Unbounded' if k == 2 else '%s(%s)' % (['Excluding', 'Including'][k], show_version(m, p.vs[k][0])))
def show_bs(m, bs): return '[%s, %s]' % (show_bound(m, bs.fs[1]), show_bound(m, bs.fs[0]))


t0 = time.time()
vcmp = find_fn('Version', 'Ord', 'cmp')
K = int(os.environ.get('K', '1'))
def wf_version(v): return [z3.ULE(v.fs[i].t, MAXS) for i in range(3)] + [z3.ULE(v.fs[3].fs[0].t, L_IDENT), z3.ULE(v.fs[4].fs[0].t, L_IDENT)]
def wf(v):
    out = wf_tag(v)
    def walk(x):
        if isinstance(x, St):
            if x.ty is Version_T: out.extend(wf_version(x))
            for f in x.fs: walk(f)
        elif isinstance(x, En):
            for p in x.vs:
                for f in p: walk(f)
    walk(v); return out
def sym_boundset(tag):
    lo, hi = fresh(Predicate_T, tag + '_lo'), fresh(Predicate_T, tag + '_hi')
    r = call_fn(find_fn('BoundSet', None, 'new'), [mk_variant(Bound_T, 'Lower', [lo]), mk_variant(Bound_T, 'Upper', [hi])])
    return r.vs[1][0], wf(lo) + wf(hi) + [is_variant(r, 'Some')]
bss, H = [], []
for i in range(K):
    b, h = sym_boundset('R%d' % i); bss.append(b); H += h
R = St(Range_T, [mk_vec(VecBS_T, z3.BitVecVal(K, 64), bss + [default(BoundSet_T)] * (CAP_BS - K))])
v = fresh(Version_T, 'probe'); H += wf(v)
PANICS.clear()
t = time.time()
r = run_fn_raw(find_fn('Range', None, 'min_version'), [R])
print('  encode Range::min_version (K=%d): %.2fs, panic entries %d' % (K, time.time() - t, len(PANICS)))
sat_fn = find_fn('BoundSet', None, 'satisfies')
def rsat(x): return z3.Or(*[call_fn(sat_fn, [b, x]).t for b in bss])
some = is_variant(r, 'Some'); mv = r.vs[1][0]
lt = lambda x, y: is_ord(call_fn(vcmp, [x, y]), 'Less')
def fmt_pred(m, p, lower):
    g = lambda e: m.eval(e, model_completion=True)
    k = g(p.tag).as_long()
    if k == 2: return ''
    return ('>' if lower else '<') + ('=' if k == 1 else '') + show_version(m, p.vs[k][0])
def fmt_range(m): return ' || '.join((fmt_pred(m, b.fs[1].vs[0][0], True) + ' ' + fmt_pred(m, b.fs[0].vs[1][0], False)).strip() or '*' for b in bss)
for nm, goal in (('panic-free', z3.Not(z3.Or(*[pc for _, pc in PANICS])) if PANICS else z3.BoolVal(True)),
                 ('Some(m) => m satisfies R', z3.Implies(some, rsat(mv))),
                 ('Some(m) & v<m => v not sat', z3.Implies(z3.And(some, lt(v, mv)), z3.Not(rsat(v)))),
                 ('None => v not sat', z3.Implies(z3.Not(some), z3.Not(rsat(v))))):
    m = check('min_version: ' + nm, H, goal)
    if m:
        g = lambda e: m.eval(e, model_completion=True)
        print('   cex: R = %s   min_version = %s   v = %s' % (fmt_range(m), show_version(m, mv) if z3.is_true(g(some)) else 'None', show_version(m, v)))
print('total %.1fs; feasibility queries %d' % (time.time() - t0, STATS['feas']))
