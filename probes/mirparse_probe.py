#!/usr/bin/env python3
"""Throw-away feasibility prototype: MIR text -> Z3, path-forking symbolic execution with
merge-at-return.  Not the framework; only to ground DESIGN.md."""
import re, sys, time, itertools, os
import z3

MIR = open(sys.argv[1]).read() if len(sys.argv)>1 else open(os.environ.get("MIR_TXT", "/tmp/probe/mir/mir.txt")).read()
SRC = {'src/lib.rs': open('/repo/src/lib.rs').read().split('\n'),
       'src/range.rs': open('/repo/src/range.rs').read().split('\n')}

# ---------------------------------------------------------------- MIR parsing
class Fn:
    def __init__(s, name, sig): s.name, s.sig, s.locals, s.blocks, s.args, s.ret = name, sig, {}, {}, [], None

def split_top(s, sep=','):
    out, depth, cur = [], 0, ''
    i = 0
    while i < len(s):
        c = s[i]
        if c in '([{<' and not (c == '<' and s[i-1:i] in ('-', '=')): depth += 1
        elif c in ')]}>' and not (c == '>' and s[i-1:i] in ('-', '=')): depth -= 1
        if c == sep and depth == 0: out.append(cur.strip()); cur = ''
        else: cur += c
        i += 1
    if cur.strip(): out.append(cur.strip())
    return out

def parse_mir(text):
    fns = {}
    lines = text.split('\n')
    i = 0
    while i < len(lines):
        l = lines[i]
        m = re.match(r'^fn (.+?)\((.*)\) -> (.+) \{$', l)
        if not m: i += 1; continue
        f = Fn(m.group(1), l)
        for a in split_top(m.group(2)):
            am = re.match(r'(_\d+): (.+)', a)
            f.args.append(am.group(1)); f.locals[am.group(1)] = am.group(2)
        f.ret = m.group(3); i += 1
        cur = None
        while lines[i] != '}':
            l = lines[i].strip()
            m = re.match(r'let (?:mut )?(_\d+): (.+);$', l)
            if m: f.locals[m.group(1)] = m.group(2)
            m = re.match(r'(bb\d+)( \(cleanup\))?: \{$', l)
            if m: cur = m.group(1); f.blocks[cur] = {'cleanup': bool(m.group(2)), 'stmts': []}
            elif cur and l and l != '}' and not l.startswith('scope') and not l.startswith('debug') and not l.startswith('let '):
                f.blocks[cur]['stmts'].append(l)
            if l == '}' and cur and lines[i].startswith('    }'): cur = None
            i += 1
        fns.setdefault(f.name, []).append(f)
        i += 1
    return fns

FNS = parse_mir(MIR)

# resolve "<impl at F:L:C: L2:C2>::method" -> (selfty, trait, method)
IMPLS = {}
for name, fl in FNS.items():
    m = re.match(r'^(?:range::)?<impl at (src/\w+\.rs):(\d+):(\d+): (\d+):(\d+)>::(\w+)(.*)$', name)
    if not m: continue
    F, L, C, L2, C2, meth, rest = m.groups(); L, C, L2, C2 = int(L), int(C), int(L2), int(C2)
    txt = SRC[F][L-1][C-1:C2-1] if L == L2 else SRC[F][L-1][C-1:]
    if txt.startswith('impl'):
        h = re.sub(r'^impl(<[^>]*>)?\s+', '', txt)
        if ' for ' in h: tr, ty = h.split(' for ', 1)
        else: tr, ty = None, h
        tr = tr.split('::')[-1] if tr else None
        ty = ty.strip()
    else:
        tr = txt
        ty = None
        for k in range(L, L+6):
            mm = re.match(r'\s*(?:pub )?(?:struct|enum) (\w+)', SRC[F][k])
            if mm: ty = mm.group(1); break
    for f in fl:
        IMPLS.setdefault((ty, tr, meth + rest), []).append(f)

def find_fn(ty, tr, meth):
    ty = ty.split('::')[-1]
    c = IMPLS.get((ty, tr, meth))
    if c: return c[0]
    return None

